"""Translator, codec part (C11/C12/C13): regenerates coq/gen/{MeshLayout,ImageLayout,ProtoLayout}.v
from /repo/src on every run, and coq/gen/FormatNames.v from the output of the REAL TextureFormat
serializer (`bsh codec-formats`).  Same rules as src2v.py: anchored regular expressions, every
fragment must be found in exactly the expected shape, anything else raises TranslateError (fails
closed).  Names of the source (struct fields, enum variants, attribute constants) are written as
the constructors of coq/theories/Codec/CodecTypes.v; a name unknown there is an error here."""
import os, re
GENERATORS = {}   # filled at the end; defined first so that either import order of src2v / src2v_codec works
from . import core
from .src2v import strip_rust_comments, fn_body, TranslateError, coq_bytes


def read(rel):
    return open(os.path.join(core.REPO, rel)).read()


def ws(p):
    """Regex from a pattern written with single spaces: every space matches optional whitespace."""
    return p.replace(' ', r'\s*')


def non_test(text):
    """Source text without the #[cfg(test)] module (test code is not modelled)."""
    i = text.find('#[cfg(test)]')
    return text if i < 0 else text[:i]


# ------------------------------------------------------------------------------------------
# Rust type -> Schema.ty
# ------------------------------------------------------------------------------------------
PRIM = {'u8': 'TInt 1', 'i8': 'TInt 1', 'u16': 'TInt 2', 'i16': 'TInt 2', 'u32': 'TInt 4', 'i32': 'TInt 4',
        'f32': 'TInt 4', 'u64': 'TInt 8', 'i64': 'TInt 8', 'f64': 'TInt 8', 'usize': 'TInt 8', 'isize': 'TInt 8',
        'u128': 'TInt 16', 'i128': 'TInt 16', 'bool': 'TBool', 'char': 'TChar',
        # serialize_str: u64 length + UTF-8 bytes
        'String': 'TBytes',
        # uuid 1.x, bincode is not human readable: serialize_bytes(as_bytes()) = u64 16 + 16 bytes
        'Uuid': 'TBytes',
        # wgpu-types 0.20 TextureFormat: hand-written Serialize, serialize_str(name); the names are
        # tabulated from the real serializer in gen/FormatNames.v
        'TextureFormat': 'TBytes',
        # std::net::IpAddr, not human readable: newtype variants V4([u8;4] as a tuple) | V6([u8;16])
        'IpAddr': 'TEnum [TArr 4 (TInt 1); TArr 16 (TInt 1)]',
        # bevy_asset 0.14 AssetId<A>, serde derive: Index { index: AssetIndex { generation: u32, index: u32 },
        # marker: PhantomData } | Uuid { uuid: Uuid }
        'AssetId<Image>': 'TEnum [TTuple [TTuple [TInt 4; TInt 4]; TUnit]; TTuple [TBytes]]',
        }


def split_top(s, sep=','):
    """Split at separators that are not nested in <>, [], (), {}."""
    out, depth, cur = [], 0, ''
    for i, c in enumerate(s):
        if c in '<[({':
            depth += 1
        elif c in '])}' or (c == '>' and s[i - 1:i] not in ('=', '-')):
            depth -= 1
        if c == sep and depth == 0:
            out.append(cur)
            cur = ''
        else:
            cur += c
    if cur.strip():
        out.append(cur)
    return [x.strip() for x in out]


def rust_ty(t, aliases=None, local=None):
    """Schema.ty term (Coq text, parenthesised when not atomic) of a Rust type."""
    t = re.sub(r'\s+', '', t)
    aliases = aliases or {}
    local = local or {}
    if t in aliases:
        return rust_ty(aliases[t], aliases, local)
    if t in local:
        return local[t]
    if t in PRIM:
        r = PRIM[t]
        return r if ' ' not in r else '(%s)' % r
    m = re.fullmatch(r'Option<(.*)>', t)
    if m:
        return '(TOpt %s)' % rust_ty(m.group(1), aliases, local)
    m = re.fullmatch(r'Vec<(.*)>', t)
    if m:
        return '(TSeq %s)' % rust_ty(m.group(1), aliases, local)
    m = re.fullmatch(r'\[(.*);(\d+)\]', t)
    if m:
        return '(TArr %d %s)' % (int(m.group(2)), rust_ty(m.group(1), aliases, local))
    raise TranslateError('no wire schema known for the Rust type `%s`' % t)


def struct_fields(text, name, derive=r'Serialize, Deserialize'):
    """[(field, rust type)] of `#[derive(..)] struct name { .. }`; no serde attributes allowed."""
    m = re.search(ws(r'#\[derive\(%s\)\] struct %s \{(.*?)\}') % (derive.replace(' ', r'\s*'), name), text, re.S)
    if not m or len(re.findall(r'\bstruct\s+%s\b' % name, text)) != 1:
        raise TranslateError('struct %s: not found in the expected shape' % name)
    body = m.group(1)
    if '#' in body:
        raise TranslateError('struct %s: field attributes are not modelled' % name)
    out = []
    for part in split_top(body):
        fm = re.fullmatch(r'(?:pub(?:\([a-z]+\))?\s+)?(\w+)\s*:\s*(.+)', part, re.S)
        if not fm:
            raise TranslateError('struct %s: cannot read field `%s`' % (name, part))
        out.append((fm.group(1), re.sub(r'\s+', '', fm.group(2))))
    return out


def check_no_serde_attrs(text, what):
    if re.search(r'#\[\s*serde', text):
        raise TranslateError('%s: #[serde(..)] attributes are not modelled' % what)


def known(name, allowed, what):
    if name not in allowed:
        raise TranslateError('%s: `%s` is not a name the model knows (%s)' % (what, name, ', '.join(sorted(allowed))))
    return name


HEADER = ['From Coq Require Import List NArith.', 'From BS Require Import Codec.Schema Codec.CodecTypes.',
          'Import ListNotations.', 'Local Open Scope N_scope.', '']

# ------------------------------------------------------------------------------------------
# meshes
# ------------------------------------------------------------------------------------------
MFIELDS = ['mesh_type', 'positions', 'normals', 'uvs0', 'uvs1', 'tangents', 'colors', 'joint_weights',
           'joint_indices', 'indices32', 'indices16', 'morph_targets', 'morph_target_names']
MATTRS = ['POSITION', 'NORMAL', 'UV_0', 'UV_1', 'TANGENT', 'COLOR', 'JOINT_WEIGHT', 'JOINT_INDEX']
TOPOLOGIES = ['PointList', 'LineList', 'LineStrip', 'TriangleList', 'TriangleStrip']
# VertexAttributeValues variant -> (components per vertex, bytes per component)
VAV = {'Float32x2': (2, 4), 'Float32x3': (3, 4), 'Float32x4': (4, 4), 'Uint16x4': (4, 2)}


def gen_mesh_layout():
    rel = 'src/networking/assets/mesh_serde.rs'
    t = non_test(strip_rust_comments(read(rel)))
    check_no_serde_attrs(t, rel)
    if not re.search(ws(r'use lz4_compression::\{compress, decompress\};'), t):
        raise TranslateError('mesh_serde.rs: lz4_compression import changed')
    fields = struct_fields(t, 'MeshData')
    for f, _ in fields:
        known(f, MFIELDS, 'MeshData')
    if len({f for f, _ in fields}) != len(fields):
        raise TranslateError('MeshData: duplicate field')
    enc = fn_body(t, 'mesh_to_bin')
    dec = fn_body(t, 'bin_to_mesh')
    ext = fn_body(t, 'extract_morph_targets')
    # ---------------- encoder ----------------
    sources = {}     # data variable -> msource term
    shapes = []      # (variable, attribute, k, w)
    attr = re.findall(ws(r'let (\w+) = if let Some\((\w+)\(t\)\) = mesh\.attribute\(Mesh::ATTRIBUTE_(\w+)\) \{ Some\(t\.clone\(\)\) \} else \{ None \};'), enc)
    if len(attr) != 8 or len(re.findall(r'mesh\s*\.\s*attribute\s*\(', enc)) != 8:
        raise TranslateError('mesh_to_bin: the eight attribute extractions are not in the expected shape')
    for var, variant, a in attr:
        known(a, MATTRS, 'mesh_to_bin attribute')
        if variant not in VAV:
            raise TranslateError('mesh_to_bin: attribute value variant %s not modelled' % variant)
        if var in sources:
            raise TranslateError('mesh_to_bin: %s bound twice' % var)
        sources[var] = 'SrcAttr A_%s' % a
        shapes.append((var, a) + VAV[variant])
    idx = re.findall(ws(r'let (\w+) = if let Some\(Indices::(U32|U16)\(t\)\) = mesh\.indices\(\) \{ Some\(t\.clone\(\)\) \} else \{ None \};'), enc)
    if len(idx) != 2 or len(re.findall(r'mesh\s*\.\s*indices\s*\(', enc)) != 2 or {w for _, w in idx} != {'U32', 'U16'}:
        raise TranslateError('mesh_to_bin: the two index extractions are not in the expected shape')
    for var, w in idx:
        if var in sources:
            raise TranslateError('mesh_to_bin: %s bound twice' % var)
        sources[var] = 'SrcIndices32' if w == 'U32' else 'SrcIndices16'
    m = re.search(ws(r'let (\w+) = extract_morph_targets\(mesh\)\.as_ref\(\)\.and_then\(\|m\| match m \{ Handle::Strong\(_\) => None, Handle::Weak\(id\) => Some\(\*id\), \}\);'), enc)
    if not m or m.group(1) in sources:
        raise TranslateError('mesh_to_bin: morph target handle extraction is not in the expected shape')
    sources[m.group(1)] = 'SrcMorph'
    if not re.search(ws(r'let refmesh = mesh as &dyn Struct; let morph_targets = refmesh \.field\("morph_targets"\) \.unwrap\(\) \.downcast_ref::<Option<Handle<Image>>>\(\) \.unwrap\(\); morph_targets'), ext):
        raise TranslateError('extract_morph_targets: not in the expected shape')
    m = re.search(ws(r'let (\w+) = mesh\.morph_target_names\(\)\.map\(\|v\| v\.to_vec\(\)\);'), enc)
    if not m or m.group(1) in sources:
        raise TranslateError('mesh_to_bin: morph target names extraction is not in the expected shape')
    sources[m.group(1)] = 'SrcNames'
    m = re.search(ws(r'let (\w+) = match mesh\.primitive_topology\(\) \{(.*?)\};'), enc, re.S)
    if not m or m.group(1) in sources:
        raise TranslateError('mesh_to_bin: topology match is not in the expected shape')
    sources[m.group(1)] = 'SrcTopology'
    arms = [a for a in split_top(m.group(2)) if a]
    topo_enc = []
    for a in arms:
        am = re.fullmatch(ws(r'PrimitiveTopology::(\w+) => (\d+)'), a)
        if not am:
            raise TranslateError('mesh_to_bin: topology arm `%s` not understood' % a)
        topo_enc.append((known(am.group(1), TOPOLOGIES, 'topology'), int(am.group(2))))
    if len({k for k, _ in topo_enc}) != len(topo_enc):
        raise TranslateError('mesh_to_bin: duplicate topology arm')
    if len(re.findall(r'\blet\b', enc)) - len(re.findall(r'\bif\s+let\b', enc)) != 14:
        raise TranslateError('mesh_to_bin: unexpected number of let statements')
    m = re.search(ws(r'let data = MeshData \{(.*?)\}; compress::compress\(&bincode::serialize\(&data\)\.unwrap\(\)\) \}$'), enc, re.S)
    if not m:
        raise TranslateError('mesh_to_bin: struct literal / compress(bincode::serialize(..)) not in the expected shape')
    enc_sources = []
    for part in [p for p in split_top(m.group(1)) if p]:
        pm = re.fullmatch(r'(\w+)(?:\s*:\s*(\w+))?', part)
        if not pm:
            raise TranslateError('mesh_to_bin: struct literal entry `%s` not understood' % part)
        f, var = pm.group(1), pm.group(2) or pm.group(1)
        known(f, MFIELDS, 'MeshData literal')
        if var not in sources:
            raise TranslateError('mesh_to_bin: field %s is initialised from `%s`, which is not one of the extractions' % (f, var))
        enc_sources.append((f, sources[var]))
    if sorted(f for f, _ in enc_sources) != sorted(f for f, _ in fields):
        raise TranslateError('mesh_to_bin: struct literal does not initialise exactly the fields of MeshData')
    var_field = {}
    for part in [p for p in split_top(m.group(1)) if p]:
        pm = re.fullmatch(r'(\w+)(?:\s*:\s*(\w+))?', part)
        var_field[pm.group(2) or pm.group(1)] = pm.group(1)
    # ---------------- decoder ----------------
    if not re.match(ws(r'\{ let Some\(data\) = decompress::decompress\(binary\) \.ok\(\) \.and_then\(\|binary\| bincode::deserialize::<MeshData>\(&binary\)\.ok\(\)\) else \{ return Mesh::new\( PrimitiveTopology::(\w+), RenderAssetUsages::MAIN_WORLD \| RenderAssetUsages::RENDER_WORLD, \); \};'), dec):
        raise TranslateError('bin_to_mesh: decompress / deserialize prologue not in the expected shape')
    fallback = known(re.search(ws(r'return Mesh::new\( PrimitiveTopology::(\w+),'), dec).group(1), TOPOLOGIES, 'fallback topology')
    m = re.search(ws(r'let (\w+) = match data\.(\w+) \{(.*?)\}; let mut mesh = Mesh::new\( (\w+), RenderAssetUsages::MAIN_WORLD \| RenderAssetUsages::RENDER_WORLD, \);'), dec, re.S)
    if not m or m.group(1) != m.group(4):
        raise TranslateError('bin_to_mesh: topology match / Mesh::new not in the expected shape')
    dec_targets = [(known(m.group(2), MFIELDS, 'bin_to_mesh'), 'SrcTopology')]
    topo_dec, topo_default = [], None
    for a in [x for x in split_top(m.group(3)) if x]:
        am = re.fullmatch(ws(r'(\d+|_) => PrimitiveTopology::(\w+)'), a)
        if not am:
            raise TranslateError('bin_to_mesh: topology arm `%s` not understood' % a)
        if topo_default is not None:
            raise TranslateError('bin_to_mesh: arm after the wildcard')
        if am.group(1) == '_':
            topo_default = known(am.group(2), TOPOLOGIES, 'topology')
        else:
            topo_dec.append((int(am.group(1)), known(am.group(2), TOPOLOGIES, 'topology')))
    if topo_default is None:
        raise TranslateError('bin_to_mesh: topology match has no wildcard arm')
    if len({k for k, _ in topo_dec}) != len(topo_dec):
        raise TranslateError('bin_to_mesh: duplicate topology arm')
    # the statements after Mesh::new, in source order
    tail = dec[m.end():]
    stmts = re.findall(ws(r'if let Some\((\w+)\) = data\.(\w+) \{ mesh\.(\w+)\((.*?)\); \}'), tail, re.S)
    rest = re.sub(ws(r'if let Some\((\w+)\) = data\.(\w+) \{ mesh\.(\w+)\((.*?)\); \}'), '', tail, flags=re.S)
    if re.sub(r'\s+', '', rest) != 'mesh}':
        raise TranslateError('bin_to_mesh: statements after Mesh::new are not all `if let Some(x) = data.f { mesh.<setter>(..); }`')
    for var, f, setter, args in stmts:
        known(f, MFIELDS, 'bin_to_mesh')
        args = re.sub(r'\s+', '', args)
        if setter == 'insert_attribute':
            am = re.fullmatch(r'Mesh::ATTRIBUTE_(\w+),(?:(\w+)|(\w+)\((\w+)\))', args)
            if not am or (am.group(2) or am.group(4)) != var:
                raise TranslateError('bin_to_mesh: insert_attribute(%s) not understood' % args)
            if am.group(3) and am.group(3) not in VAV:
                raise TranslateError('bin_to_mesh: attribute value variant %s not modelled' % am.group(3))
            dec_targets.append((f, 'SrcAttr A_%s' % known(am.group(1), MATTRS, 'bin_to_mesh attribute')))
        elif setter == 'insert_indices':
            am = re.fullmatch(r'Indices::(U32|U16)\((\w+)\)', args)
            if not am or am.group(2) != var:
                raise TranslateError('bin_to_mesh: insert_indices(%s) not understood' % args)
            dec_targets.append((f, 'SrcIndices32' if am.group(1) == 'U32' else 'SrcIndices16'))
        elif setter == 'set_morph_targets':
            if args != 'Handle::Weak(%s)' % var:
                raise TranslateError('bin_to_mesh: set_morph_targets(%s) not understood' % args)
            dec_targets.append((f, 'SrcMorph'))
        elif setter == 'set_morph_target_names':
            if args != var:
                raise TranslateError('bin_to_mesh: set_morph_target_names(%s) not understood' % args)
            dec_targets.append((f, 'SrcNames'))
        else:
            raise TranslateError('bin_to_mesh: mesh.%s is not modelled' % setter)
    out = ['(* GENERATED by tools/lib/bvlib/src2v_codec.py from /repo/%s — do not edit *)' % rel] + HEADER
    out.append('(* `struct MeshData`: fields in declaration order (= bincode order) with their wire schemas *)')
    out.append('Definition meshdata_fields : list (mfield * ty) :=\n  [' + ';\n   '.join('(F_%s, %s)' % (f, rust_ty(ty)) for f, ty in fields) + '].')
    out.append('(* `mesh_to_bin`: which part of the Mesh initialises which field of the MeshData literal *)')
    out.append('Definition mesh_enc_sources : list (mfield * msource) :=\n  [' + ';\n   '.join('(F_%s, %s)' % (f, s) for f, s in enc_sources) + '].')
    out.append('(* `mesh_to_bin`: VertexAttributeValues variant matched per attribute: (field, attribute, components, bytes per component) *)')
    out.append('Definition mesh_enc_shapes : list (mfield * mattr * nat * nat) :=\n  [' + ';\n   '.join('(F_%s, A_%s, %d%%nat, %d%%nat)' % (var_field[v], a, k, w) for v, a, k, w in shapes) + '].')
    out.append('(* `mesh_to_bin`: `match mesh.primitive_topology()` *)')
    out.append('Definition topo_enc_table : list (topology * N) := [' + '; '.join('(%s, %d)' % x for x in topo_enc) + '].')
    out.append('(* `bin_to_mesh`: `match data.mesh_type`, numbered arms and the wildcard arm *)')
    out.append('Definition topo_dec_table : list (N * topology) := [' + '; '.join('(%d, %s)' % x for x in topo_dec) + '].')
    out.append('Definition topo_dec_default : topology := %s.' % topo_default)
    out.append('(* `bin_to_mesh`: topology of the empty mesh returned when bincode fails *)')
    out.append('Definition mesh_fallback_topology : topology := %s.' % fallback)
    out.append('(* `bin_to_mesh`: which field is written to which part of the Mesh, in statement order (a later insertion replaces an earlier one) *)')
    out.append('Definition mesh_dec_targets : list (mfield * msource) :=\n  [' + ';\n   '.join('(F_%s, %s)' % (f, s) for f, s in dec_targets) + '].')
    out.append('')
    return '\n'.join(out)


# ------------------------------------------------------------------------------------------
# images
# ------------------------------------------------------------------------------------------
IFIELDS = ['width', 'height', 'depth_or_array_layers', 'dimensions', 'format', 'data']
DIMS = ['D1', 'D2', 'D3']     # TextureDimension::Dn is written Dimn (D1.. clash with Coq's Decimal digits once extracted)
ISRC_ENC = {'image.texture_descriptor.size.width': 'ISrcWidth', 'image.texture_descriptor.size.height': 'ISrcHeight',
            'image.texture_descriptor.size.depth_or_array_layers': 'ISrcDepth',
            'image.texture_descriptor.format': 'ISrcFormat', 'image.data.clone()': 'ISrcData'}


def gen_image_layout():
    rel = 'src/networking/assets/image_serde.rs'
    t = non_test(strip_rust_comments(read(rel)))
    check_no_serde_attrs(t, rel)
    if not re.search(ws(r'use lz4_compression::\{compress, decompress\};'), t):
        raise TranslateError('image_serde.rs: lz4_compression import changed')
    fields = struct_fields(t, 'ImageData')
    for f, _ in fields:
        known(f, IFIELDS, 'ImageData')
    if len({f for f, _ in fields}) != len(fields):
        raise TranslateError('ImageData: duplicate field')
    enc = fn_body(t, 'image_to_bin')
    dec = fn_body(t, 'bin_to_image')
    m = re.fullmatch(ws(r'\{ let (\w+) = match image\.texture_descriptor\.dimension \{(.*?)\}; let img = ImageData \{(.*?)\}; Some\(compress::compress\(&bincode::serialize\(&img\)\.ok\(\)\?\)\) \}'), enc, re.S)
    if not m:
        raise TranslateError('image_to_bin: not in the expected shape')
    dimvar = m.group(1)
    dim_enc = []
    for a in [x for x in split_top(m.group(2)) if x]:
        am = re.fullmatch(ws(r'TextureDimension::(\w+) => (\d+)'), a)
        if not am:
            raise TranslateError('image_to_bin: dimension arm `%s` not understood' % a)
        dim_enc.append(('Dim' + known(am.group(1), DIMS, 'dimension')[1:], int(am.group(2))))
    if len({k for k, _ in dim_enc}) != len(dim_enc):
        raise TranslateError('image_to_bin: duplicate dimension arm')
    enc_sources = []
    for part in [p for p in split_top(m.group(3)) if p]:
        pm = re.fullmatch(r'(\w+)(?:\s*:\s*(.+))?', part, re.S)
        if not pm:
            raise TranslateError('image_to_bin: struct literal entry `%s` not understood' % part)
        f = known(pm.group(1), IFIELDS, 'ImageData literal')
        expr = re.sub(r'\s+', '', pm.group(2) or pm.group(1))
        if expr == dimvar:
            enc_sources.append((f, 'ISrcDimension'))
        elif expr in ISRC_ENC:
            enc_sources.append((f, ISRC_ENC[expr]))
        else:
            raise TranslateError('image_to_bin: field %s is initialised from `%s`, which is not modelled' % (f, expr))
    if sorted(f for f, _ in enc_sources) != sorted(f for f, _ in fields):
        raise TranslateError('image_to_bin: struct literal does not initialise exactly the fields of ImageData')
    # the image is assembled field by field (not Image::new, whose debug assertion rejects data that is not
    # extent x texel size: repair of S32): every assignment is read, anything else fails the translation
    m = re.fullmatch(ws(r'\{ let bin = decompress::decompress\(bin\)\.ok\(\)\?; let img = bincode::deserialize::<ImageData>\(&bin\)\.ok\(\)\?; let (\w+) = match img\.(\w+) \{(.*?)\}; let mut image = Image::default\(\); image\.data = img\.(\w+); image\.texture_descriptor\.dimension = (\w+); image\.texture_descriptor\.size = Extent3d \{ width: img\.(\w+), height: img\.(\w+), depth_or_array_layers: img\.(\w+), \}; image\.texture_descriptor\.format = img\.(\w+); image\.asset_usage = RenderAssetUsages::RENDER_WORLD \| RenderAssetUsages::MAIN_WORLD; Some\(image\) \}'), dec, re.S)
    if not m:
        raise TranslateError('bin_to_image: not in the expected shape')
    if m.group(5) != m.group(1):
        raise TranslateError('bin_to_image: the image does not receive the matched dimension')
    g = dict(dimfield=m.group(2), arms=m.group(3), data=m.group(4), width=m.group(6), height=m.group(7), depth=m.group(8), fmt=m.group(9))
    dim_dec, dim_default = [], None
    for a in [x for x in split_top(g['arms']) if x]:
        am = re.fullmatch(ws(r'(\d+|_) => TextureDimension::(\w+)'), a)
        if not am:
            raise TranslateError('bin_to_image: dimension arm `%s` not understood' % a)
        if dim_default is not None:
            raise TranslateError('bin_to_image: arm after the wildcard')
        if am.group(1) == '_':
            dim_default = 'Dim' + known(am.group(2), DIMS, 'dimension')[1:]
        else:
            dim_dec.append((int(am.group(1)), 'Dim' + known(am.group(2), DIMS, 'dimension')[1:]))
    if dim_default is None:
        raise TranslateError('bin_to_image: dimension match has no wildcard arm')
    if len({k for k, _ in dim_dec}) != len(dim_dec):
        raise TranslateError('bin_to_image: duplicate dimension arm')
    dec_targets = [('ISrcDimension', g['dimfield']), ('ISrcWidth', g['width']), ('ISrcHeight', g['height']),
                   ('ISrcDepth', g['depth']), ('ISrcData', g['data']), ('ISrcFormat', g['fmt'])]
    for _, f in dec_targets:
        known(f, IFIELDS, 'bin_to_image')
    out = ['(* GENERATED by tools/lib/bvlib/src2v_codec.py from /repo/%s — do not edit *)' % rel] + HEADER
    out.append('(* `struct ImageData`: fields in declaration order (= bincode order) with their wire schemas *)')
    out.append('Definition imagedata_fields : list (ifield * ty) :=\n  [' + ';\n   '.join('(I_%s, %s)' % (f, rust_ty(ty)) for f, ty in fields) + '].')
    out.append('(* `image_to_bin`: which part of the Image initialises which field of the ImageData literal *)')
    out.append('Definition image_enc_sources : list (ifield * isource) :=\n  [' + '; '.join('(I_%s, %s)' % (f, s) for f, s in enc_sources) + '].')
    out.append('(* `image_to_bin`: `match image.texture_descriptor.dimension` *)')
    out.append('Definition dim_enc_table : list (dimension * N) := [' + '; '.join('(%s, %d)' % x for x in dim_enc) + '].')
    out.append('(* `bin_to_image`: `match img.dimensions`, numbered arms and the wildcard arm *)')
    out.append('Definition dim_dec_table : list (N * dimension) := [' + '; '.join('(%d, %s)' % x for x in dim_dec) + '].')
    out.append('Definition dim_dec_default : dimension := %s.' % dim_default)
    out.append('(* `bin_to_image`: which field each part of the rebuilt Image (size, dimension, data, format) is taken from *)')
    out.append('Definition image_dec_targets : list (isource * ifield) :=\n  [' + '; '.join('(%s, I_%s)' % (s, f) for s, f in dec_targets) + '].')
    out.append('')
    return '\n'.join(out)


# ------------------------------------------------------------------------------------------
# protocol messages
# ------------------------------------------------------------------------------------------
MVARIANTS = ['EntitySpawn', 'EntityParented', 'EntityDelete', 'ComponentUpdated', 'StandardMaterialUpdated',
             'MeshUpdated', 'ImageUpdated', 'AudioUpdated', 'PromoteToHost', 'NewHost', 'RequestInitialSync',
             'FinishedInitialSync']
PFIELDS = ['id', 'entity_id', 'parent_id', 'name', 'data', 'material', 'url', 'params']
SFIELDS = ['ip', 'port', 'web_port', 'max_transfer']


def enum_variants(text, name, derive_re):
    """[(variant, [(field, rust type)] or None for a unit variant)] of a serde-derived enum whose
    variants are unit or struct variants (explicit discriminants `= n` are allowed and ignored:
    serde derive numbers variants by declaration order)."""
    m = re.search(r'#\[derive\(' + derive_re + r'\)\]\s*(?:#\[repr\(\w+\)\]\s*)?pub(?:\(crate\))?\s+enum\s+' + name + r'\s*\{', text)
    if not m or len(re.findall(r'\benum\s+%s\b' % name, text)) != 1:
        raise TranslateError('enum %s: not found in the expected shape' % name)
    i = m.end() - 1
    depth, k = 0, i
    while k < len(text):
        if text[k] == '{':
            depth += 1
        elif text[k] == '}':
            depth -= 1
            if depth == 0:
                break
        k += 1
    body = text[i + 1:k]
    if '#' in body:
        raise TranslateError('enum %s: variant / field attributes are not modelled' % name)
    out = []
    for part in [p for p in split_top(body) if p]:
        vm = re.fullmatch(r'(\w+)\s*(?:\{(.*)\})?\s*(?:=\s*\d+)?', part, re.S)
        if not vm:
            raise TranslateError('enum %s: variant `%s` not understood (tuple variants are not modelled)' % (name, part[:40]))
        if vm.group(2) is None:
            out.append((vm.group(1), None))
        else:
            fs = []
            for fp in [p for p in split_top(vm.group(2)) if p]:
                fm = re.fullmatch(r'(\w+)\s*:\s*(.+)', fp, re.S)
                if not fm:
                    raise TranslateError('enum %s: field `%s` not understood' % (name, fp))
                fs.append((fm.group(1), re.sub(r'\s+', '', fm.group(2))))
            out.append((vm.group(1), fs))
    return out


def gen_proto_layout():
    t = non_test(strip_rust_comments(read('src/proto.rs')))
    lib = non_test(strip_rust_comments(read('src/lib.rs')))
    check_no_serde_attrs(t, 'proto.rs')
    aliases = dict(re.findall(r'pub\s+type\s+(\w+)\s*=\s*(\w+)\s*;', t))
    for a, b in aliases.items():
        if b != 'Uuid':
            raise TranslateError('proto.rs: type alias %s = %s not modelled' % (a, b))
    if not re.search(r'use\s+uuid::Uuid\s*;', t) or not re.search(r'use\s+crate::SyncConnectionParameters\s*;', t):
        raise TranslateError('proto.rs: imports changed')
    sp = enum_variants(lib, 'SyncConnectionParameters', r'Serialize,\s*Deserialize,\s*Debug,\s*Resource,\s*Clone')
    i = lib.find('enum SyncConnectionParameters')
    if re.search(r'#\[\s*serde', lib[max(0, i - 300):i + 600]):
        raise TranslateError('SyncConnectionParameters: serde attributes are not modelled')
    if [v for v, _ in sp] != ['Socket'] or sp[0][1] is None:
        raise TranslateError('SyncConnectionParameters: expected exactly one struct variant `Socket`')
    if not re.search(r'use\s+std::(?:\{[^}]*\bnet::IpAddr\b[^}]*\}|net::IpAddr|net::\{[^}]*\bIpAddr\b[^}]*\})', lib):
        raise TranslateError('lib.rs: IpAddr is not std::net::IpAddr')
    for f, _ in sp[0][1]:
        known(f, SFIELDS, 'SyncConnectionParameters::Socket')
    msg = enum_variants(t, 'Message', r'Serialize,\s*Deserialize,\s*Debug')
    for v, fs in msg:
        known(v, MVARIANTS, 'Message')
        for f, _ in fs or []:
            known(f, PFIELDS, 'Message::%s' % v)
    if len({v for v, _ in msg}) != len(msg):
        raise TranslateError('Message: duplicate variant')
    local = {'SyncConnectionParameters': 'sync_params_ty'}
    out = ['(* GENERATED by tools/lib/bvlib/src2v_codec.py from /repo/src/proto.rs and /repo/src/lib.rs — do not edit *)'] + HEADER
    out.append('(* `SyncConnectionParameters::Socket { .. }`: fields in declaration order *)')
    out.append('Definition sync_params_fields : list (sfield * ty) :=\n  [' + '; '.join('(S_%s, %s)' % (f, rust_ty(ty)) for f, ty in sp[0][1]) + '].')
    out.append('(* `enum SyncConnectionParameters`: one struct variant *)')
    out.append('Definition sync_params_ty : ty := TEnum [TTuple (map snd sync_params_fields)].')
    out.append('(* `enum Message`: variants in declaration order (= serde variant index); [] = unit variant *)')
    rows = []
    for v, fs in msg:
        rows.append('(K_%s, [%s])' % (v, '; '.join('(P_%s, %s)' % (f, rust_ty(ty, aliases, local)) for f, ty in (fs or []))))
    out.append('Definition message_variants : list (mvariant * list (pfield * ty)) :=\n  [' + ';\n   '.join(rows) + '].')
    out.append('(* serde derive: a unit variant has no payload, a struct variant is its fields in order *)')
    out.append('Definition variant_ty (fs : list (pfield * ty)) : ty :=\n  match fs with [] => TUnit | _ => TTuple (map snd fs) end.')
    out.append('Definition message_ty : ty := TEnum (map (fun v => variant_ty (snd v)) message_variants).')
    out.append('')
    return '\n'.join(out)


# ------------------------------------------------------------------------------------------
# TextureFormat names, from the real serializer
# ------------------------------------------------------------------------------------------
def format_names_text(table_text):
    """Coq text of gen/FormatNames.v from the output of `bsh codec-formats`
    (lines `FMT <Debug name> <hex of bincode::serialize(&format)> <uncompressed 0/1> <pixel size>`)."""
    rows = []
    for line in table_text.split('\n'):
        w = line.split()
        if not w:
            continue
        if len(w) != 5 or w[0] != 'FMT' or w[3] not in ('0', '1') or not w[4].isdigit():
            raise TranslateError('codec-formats: line `%s` not understood' % line[:80])
        wire = bytes.fromhex(w[2])
        if len(wire) < 8 or int.from_bytes(wire[:8], 'little') != len(wire) - 8:
            raise TranslateError('codec-formats: %s does not serialize as a string (u64 length + bytes)' % w[1])
        rows.append((w[1], wire[8:], w[3] == '1', int(w[4])))
    if len(rows) < 40:
        raise TranslateError('codec-formats: only %d formats' % len(rows))
    out = ['(* GENERATED by tools/lib/bvlib/src2v_codec.py from the output of `bsh codec-formats`, i.e. from',
           '   bincode::serialize(&TextureFormat) of the wgpu-types the harness is linked with — do not edit *)',
           'From Coq Require Import List NArith Bool.', 'Import ListNotations.', 'Local Open Scope N_scope.', '',
           '(* every TextureFormat: (Debug name, name on the wire, uncompressed with a defined pixel size, pixel size) *)',
           'Definition format_table : list (list N * list N * bool * N) :=\n  [' + ';\n   '.join(
               '(%s, %s, %s, %d)' % (coq_bytes(n), '[' + '; '.join(str(b) for b in wire) + ']', 'true' if u else 'false', px)
               for n, wire, u, px in rows) + '].',
           'Definition format_count : N := %d.' % len(rows),
           'Definition uncompressed_count : N := %d.' % sum(1 for r in rows if r[2]), '']
    return '\n'.join(out)


def gen_format_names():
    if not os.path.exists(core.BSH):
        ok, msg = core.build_harness()
        if not ok:
            raise TranslateError('harness binary %s missing and does not build: %s' % (core.BSH, msg[-300:]))
    rc, out = core.run([core.BSH, 'codec-formats'], timeout=120)
    if rc != 0:
        raise TranslateError('bsh codec-formats failed: ' + out[-200:])
    return format_names_text(out)


GENERATORS.update({'MeshLayout': gen_mesh_layout, 'ImageLayout': gen_image_layout, 'ProtoLayout': gen_proto_layout,
                   'FormatNames': gen_format_names})
from . import src2v as _src2v
_src2v.GENERATORS.update(GENERATORS)
