#!/usr/bin/env python3
"""Writes MANIFEST.json from the table below (kept in one place so it is always valid)."""
import json, os
V = os.path.abspath(os.path.join(os.path.dirname(__file__), '..'))
CLAIMED = {
 'C14': dict(
   text='Coq theorems over an executable model of the endpoint (router, caches, URL/uuid text): for every history of publications and requests, the advertised path of every published asset answers 200 with exactly the latest published bytes and the right Content-Length/chunked mode; never-published or wrong-class uuids answer 404; every other request gets an error status; requests never change state. Model tied to the code on every run by (a) router/status/cache-mode tables regenerated from src/networking/assets/mod.rs and proved equal to the model tables, (b) differential runs of the real endpoint (real sockets, IPv4 and ::1, concurrent connections) against the extracted model on the same histories.',
   note='Partial for runtime behaviour: acceptor/responder threads, sockets, lock poisoning (449), tiny_http parsing of broken requests are modelled-not-verified; trusted: Coq kernel, extraction (ExtrOcamlBasic), OCaml driver, Rust harness, regex translator.',
   technique='Coq proof (all histories, induction over operation lists) + source-derived tables + differential correspondence on real HTTP',
   design='5/C14'),
}
PENDING = {
 'C01': 'protocol model under construction; check not built yet',
 'C02': 'protocol model under construction; check not built yet',
 'C03': 'protocol model under construction; check not built yet',
 'C04': 'protocol model under construction; check not built yet',
 'C05': 'protocol model under construction; check not built yet',
 'C06': 'protocol model under construction; check not built yet',
 'C07': 'protocol model under construction; check not built yet',
 'C08': 'protocol model under construction; check not built yet',
 'C09': 'protocol model under construction; check not built yet',
 'C10': 'protocol model under construction; check not built yet',
 'C11': 'codec proofs under construction; check not built yet',
 'C12': 'codec proofs under construction; check not built yet',
 'C13': 'codec proofs under construction; check not built yet',
 'C15': 'protocol model under construction; check not built yet',
 'C16': 'protocol model under construction; check not built yet',
 'C17': 'protocol model under construction; check not built yet',
}
for k in CLAIMED:
    PENDING.pop(k, None)
m = dict(
  version=1,
  setup_cmd='tools/bv setup',
  hooks=dict(guard='verif_hooks (cargo feature of bevy_sync)',
             enable='harness/Cargo.toml depends on bevy_sync = { path = "/repo", features = ["verif_hooks"] }',
             baseline_off_cmd='cd /repo && cargo test --workspace --no-fail-fast --offline',
             source_commits=['04a433e', '82279e3'], add_only=True),
  engines=[dict(name='coq', path='coq/', serves_properties=sorted(CLAIMED), kind_free_text='Coq 8.16.1 development: executable model + theorems; coq/gen regenerated from /repo/src on every run'),
           dict(name='harness', path='harness/', serves_properties=sorted(CLAIMED), kind_free_text='Rust crate driving the real bevy_sync code (feature verif_hooks)'),
           dict(name='driver', path='ocaml/', serves_properties=sorted(CLAIMED), kind_free_text='OCaml driver of the extracted model (correspondence check)')],
  checks=[dict(property_id=p, quick_cmd='tools/bv check %s --tier quick' % p, thorough_cmd='tools/bv check %s --tier thorough' % p,
               evidence_file='/verif/evidence/%s.json' % p, replay_cmd_template='tools/bv replay {path}', engine='coq',
               level_claimed=dict(category='proof', text=c['text'], design_ref=c['design']), level_note=c['note'], technique=c['technique'])
          for p, c in sorted(CLAIMED.items())],
  notes='See DESIGN.md. known_findings.json lists repaired (fixed:) and open findings.',
  not_applicable=[dict(property_id=p, reason=r) for p, r in sorted(PENDING.items())],
)
json.dump(m, open(os.path.join(V, 'MANIFEST.json'), 'w'), indent=1)
print('MANIFEST.json: %d checks, %d not claimed' % (len(m['checks']), len(m['not_applicable'])))
