#!/usr/bin/env python3
"""Writes MANIFEST.json from the table below (kept in one place so it is always valid)."""
import json, os
V = os.path.abspath(os.path.join(os.path.dirname(__file__), '..'))
CLAIMED = {
 'C14': dict(
   text='Coq theorems over an executable model of the endpoint (router, caches, URL/uuid text): for every history of publications and requests, the advertised path of every published asset answers 200 with exactly the latest published bytes and the right Content-Length/chunked mode; never-published or wrong-class uuids answer 404; every other request gets an error status; requests never change state. Model tied to the code on every run by (a) router/status/cache-mode tables regenerated from src/networking/assets/mod.rs and proved equal to the model tables, (b) differential runs of the real endpoint (real sockets, IPv4 and ::1, concurrent connections) against the extracted model on the same histories.',
   note='Partial for runtime behaviour: acceptor/responder threads, sockets, lock poisoning (449), tiny_http parsing of broken requests are modelled-not-verified; trusted: Coq kernel, extraction (ExtrOcamlBasic), OCaml driver, Rust harness, regex translator.',
   technique='Coq proof (all histories, induction over operation lists) + source-derived tables + differential correspondence on real HTTP',
   design='5/C14'),
 'C11': dict(
   text='Coq theorem over an executable model of mesh_to_bin / bin_to_mesh: for EVERY supported mesh (five topologies, any subset of the eight attributes, any vertex count incl. zero with no bound, any f32 bit pattern, no/u16/u32 indices, no or weak morph handle, any names) encoding succeeds and decoding returns exactly that mesh (C11_mesh_lossless); a strong morph handle, outside the supported set, is dropped and nothing else changes (C11_strong_handle_dropped). Built on a byte-exact Coq model of lz4-compression 0.7 with its round trip proved for all inputs and a Coq model of bincode with decode(encode v ++ rest) = (v, rest) proved for all schemas. The model is DEFINED over tables regenerated from src/networking/assets/mesh_serde.rs on every run (MeshData field order and types, which part of the Mesh feeds which field, which field is written where and in which order on decode, both topology match blocks); side conditions on those tables (tables inverse, schema well formed, every field typed like its source, every part written from the field it was read into) are discharged by computation on every run. Differential runs: real mesh_to_bin bytes = model bytes and real bin_to_mesh = model decode on random meshes, plus the oracle decoded = original on the real output.',
   note='Trusted / not proved: that the model mirrors the Rust text beyond what the translator extracts (anchored regexes, fail closed) and the correspondence samples; hand-written Bevy facts (vertex format of the eight ATTRIBUTE_* constants, serde layout of AssetId<Image>); Coq kernel, extraction (ExtrOcamlBasic), OCaml driver, Rust harness. Meshes carrying other attributes or other value formats are outside the modelled domain. The statement pins the wire layout: a consistent reordering of MeshData fields is reported as a broken obligation without a failing input.',
   technique='Coq proof (all meshes, structural; lz4 round trip + bincode round trip) over source-derived tables + differential correspondence on the real codec',
   design='5/C11'),
 'C12': dict(
   text='Messages: Coq theorem over a model of the serde/bincode wire form of `Message` DEFINED over the variant/field/type table regenerated from src/proto.rs and src/lib.rs on every run: every message of all twelve kinds with any field values encodes, and decoding the bytes followed by anything returns that message (C12_message_roundtrip); equal bytes imply equal messages. Components and materials: for EVERY wire schema (any nesting of structs, tuple structs, enums, options, lists, arrays, maps, strings, chars, integers/floats of every width) and every value of it, the ReflectSerializer envelope decodes to the same type path and value, leaves exactly the trailing bytes, and re-encodes to the same bytes (C12_component_roundtrip, C12_component_bytes_determine_value, decoder accepts only encodings). Differential runs: real bincode / reflect_to_bin bytes = model bytes and real decode = model decode, with the wire schema of each component type read from the real TypeRegistry; oracle on the real output: decoded value = original, re-encoding = same bytes, FromReflect rebuilds an equal value, reflect_partial_eq holds.',
   note='Partial: that FromReflect rebuilds an EQUAL CONCRETE Rust value and that reflect_partial_eq holds are statements about macro-generated Rust code and are only CHECKED on generated values (REFLCHK flags), not proved. Observed and encoded narrowly in the oracle: reflect_partial_eq is false when a float field holds a NaN (bit pattern still preserved) and for a component that IS a Handle<..> (bin_to_reflect leaves non-struct values dynamic and Handle compares only with a concrete Handle). Not modelled: UTF-8 validation of strings by the real decoder (the model decoder accepts a superset). Trusted: hand-written serde schemas of ReflectSerialize types (glam, Uuid, String, Name, bevy_color) in the harness, serde layouts of Uuid/String/Vec<u8>/IpAddr in the translator, Coq kernel, extraction, driver, harness, regex translator. The statement pins the wire layout of Message: a consistent reordering of variants is reported as a broken obligation without a failing input.',
   technique='Coq proof (all schemas / all values by induction on schemas; all messages by case analysis over the generated layout) + source-derived tables + differential correspondence with registry-derived schemas',
   design='5/C12'),
 'C13': dict(
   text='Coq theorem over an executable model of image_to_bin / bin_to_image DEFINED over tables regenerated from src/networking/assets/image_serde.rs on every run (ImageData field order and types, what initialises each field, which field each argument of Image::new is taken from, both dimension match blocks): for EVERY image (u32 extents incl. zero, 1D/2D/3D, any format name, any pixel bytes of any length) encoding succeeds and decoding returns Some of exactly that image (C13_image_lossless). The TextureFormat is carried as its name on the wire; the table of all format names is regenerated from the REAL serializer on every run and proved duplicate free (finite statement over that table), so equal names are equal formats. Same lz4 and bincode theorems as C11. Differential runs: real bytes = model bytes, real decode = model decode on random images of every uncompressed format, plus the oracle decoded = original.',
   note='Trusted / not proved: that the real TextureFormat deserializer maps a name back to the format it came from (checked on every uncompressed format by the correspondence only); the debug assertion of Image::new (data length = volume x pixel size) is not modelled, generated images satisfy it; Coq kernel, extraction, OCaml driver, Rust harness, regex translator.',
   technique='Coq proof (all images; lz4 round trip + bincode round trip) over source-derived tables and a serializer-derived format table + differential correspondence on the real codec',
   design='5/C13'),
}

FNOTE = ' Frame-level model tied to the code on every run: the real code (real Apps under the single-threaded executor, real renet over loopback) and the extracted model replay the same generated histories and must agree on every received message, published state, tracker statistic and on the world of every peer after EVERY frame; the executable order of Update, delivery and connection events are oracle inputs read from the real run. Property oracle evaluated on the same real traces.'
FTB = 'Modelled-not-verified (tied only by the correspondence): Bevy scheduler/change detection/Commands/hierarchy/States, renet reliable ordered channel; the harness pins the single-threaded executor (order-dependent behaviour is explored through the per-process random index order); trusted: Coq kernel, extraction (ExtrOcamlBasic), OCaml driver (incl. permutation of independent in-flight messages), Rust harness, oracles.'
CLAIMED.update({
 'C02': dict(
   text='Coq theorems over an event-level model of the replication of one component key (write, change-detector run with its token, send, delivery with relay-only-if-changed on the host, join with snapshot; Abs/Values.v, mirroring sync_detect / signal_component_changed / apply_component_change): for ANY number of clients and EVERY interleaving of the atomic events of all peers, if writes by different peers are separated by a drain and a joiner does not write before its join settled, every peer of the session holds the most recent write at every quiescent state, joiners included (C02_values_converge, C02_every_quiescent_state, C02_joiner_gets_current_value). The unrestricted statement is refuted with a machine-checked witness for the join window (known finding S22).' + FNOTE + ' The event-level model is tied the same way: its executable step function replays the event sequence extracted from every real trace (writes, one detect+send per real frame, one delivery per received update, joins) and must reproduce the value shown after every frame.',
   note='Layer A is an abstraction by hand (atomic handlers, no ticks, one key at a time, values with Leibniz equality: NaN-like values outside); its theorems are about that model. ' + FTB,
   technique='Coq proof (invariants by induction over event traces, all N, all interleavings) + trace replay of the abstract model + per-frame differential correspondence of the frame-level model',
   design='5/C02'),
 'C04': dict(
   text='Coq theorems over the frame-level model (Sync/Model.v), for ALL peer states, ALL executable orders and ALL oracles: every component update in a frame output is a copy of a received message (relay) or concerns a tracked uuid and a type registered with sync_component on this peer; unregistered types are never originated; a component excluded whenever its detector runs is never queued; asset updates are relays or belong to an enabled class and advertise this peer; a never-marked entity is never mentioned, never announced and not tracked; every snapshot message is justified on the state the snapshot was built in (registered, not excluded, class enabled); over all traces the invariants hold in every reachable state and a type no peer registered never travels on any link.' + FNOTE,
   note='Per-originator attribution of DELIVERED messages is not expressible (messages carry no origin): proved is registered-on-some-peer plus the per-emitter statements. Hypothesis order_ok (a detector exists only for a registered type) is discharged on every run by the schedule audit of the driver. ' + FTB,
   technique='Coq proof (generic frame invariant preserved by every system and command; induction over global traces) + per-frame differential correspondence + receive-tap oracle',
   design='5/C04'),
 'C08': dict(
   text='Coq theorems over the frame-level model, in which every partial operation of the Rust code (unwrap, world.entity, entity_mut, Commands insert on a dead entity, add_child) is an explicit panic outcome. Local, for EVERY peer state, EVERY executable order of Update (application systems issuing despawns anywhere) and EVERY oracle: a frame never panics on a dead/unknown entity, a missing parent or an unregistered type; the only panic left is Bevy\'s self-parent check, excluded by a local invariant (C08_frame_no_panic); ignored messages leave the receiver unchanged. Global, over ALL traces of any number of peers (every interleaving, order, oracle — even untruthful ones —, joins, promotions), restricting only the application (fresh ids, mark once, links between entities standing for different uuids, application systems only despawn): no peer ever panics and no self-parent link is ever emitted (C08_no_panic). The literal statement without the different-uuids condition is refuted IN THE MODEL by oracles no real session produces (machine-checked remark).' + FNOTE + ' Oracle: every update() of every peer runs under catch_unwind; a cross-product generator crosses every message kind with every receiver condition (despawned directly or through application systems of the same frame, on the other side at the same moment, type registered on one side only).',
   note='The defects S3 (bin_to_reflect unwrap), S4 (world.entity / entity_mut on a dead entity) and S5 (Commands insert after a same-flush despawn) were found by this check and repaired by fix: commits; the model follows the repaired code. Open: the full statement needs the uniqueness half of C01 (no two live replicas of one uuid) under truthful oracles. ' + FTB,
   technique='Coq proof (exact characterisation of every panic site; invariant over all global traces) + per-frame differential correspondence with panic prediction + catch_unwind oracle on a cross-product generator',
   design='5/C08'),
 'C10': dict(
   text='Coq theorems over the event-level value model (Abs/Values.v): while one peer alone writes the key — any write sequence, every interleaving of all peers events, any number of clients, joins — every value any peer shows was written and the sequence any other peer displays (third peers behind the relay included) is a subsequence of the written values in order (C10_single_writer), ending at quiescence with the last one (C10_ends_with_last); the host relay loses nothing. The order claim with the HOST as writer and a join between its detector run and its send is refuted with a machine-checked witness (known finding S21).' + FNOTE + ' The event-level model replays every real trace (see C02).',
   note='Layer A is an abstraction by hand (see C02). ' + FTB,
   technique='Coq proof (position invariant into the written sequence, induction over event traces) + trace replay of the abstract model + per-frame differential correspondence; oracle: displayed values after every real frame form a subsequence',
   design='5/C10'),
 'C15': dict(
   text='Coq theorems over the state systems, run conditions and receivers of the frame-level model, for ALL executable orders and ALL oracles: over every run of application operations and frames ClientState only moves Disconnected -> Connecting -> Connected -> Disconnected (or Connecting -> Disconnected); it becomes Connected only one frame after verify_client_connected ran with a client transport present, in state Connecting, and renet reporting Connected; after the application removes its transport the state is Disconnected within two frames; ServerState follows within two frames whether the peer hosts; a gated replication system is the identity (acts only in the Connected states); InitialSyncFinished increases by exactly one per FinishedInitialSync polled and once when hosting starts, the host sends exactly one per snapshot as the LAST message of the batch, and by the end of the frame in which the client polls it everything that preceded it on the link has been handled and all queued commands applied. Refuted with machine-checked witnesses: Connected implies the renet client is connected (known finding S8), and the resource_removed bit being always set (transport inserted and removed between two evaluations: residual of S10).' + FNOTE,
   note='Handshake timing (when renet reports connected, when the host sees the client) is oracle input; netcode time-outs are outside the model. The two-frame theorems carry explicit hypotheses (no panic in the first frame, the transport constant during it, no key collision between exotic system ids). ' + FTB,
   technique='Coq proof (exact effect of every schedule position on the session fields; invariants over per-peer runs) + per-frame differential correspondence; oracle: state path, stuck states, InitialSyncFinished count per join',
   design='5/C15'),
 'C16': dict(
   text='Coq theorems over to_skinned_mapper / to_skinned_mesh / apply_component_change of the frame-level model: for any two peers with arbitrary local entity-id spaces, any joint list (any length, order, repeats) of synchronized entities and any bind poses, what the sender announces decodes on the receiver to the same number of joints, in order, each the receiver replica of the same uuid, with equal bind poses (C16_joints_translated, C16_same_joint_count); a received mapper is installed as exactly the translated mesh, replacing the old value (C16_received_mapper_installed).' + FNOTE,
   note='Delivery through the snapshot when a SkinnedMesh and its joints live in different archetypes and the snapshot spans several frames (suspected S13) is not exercised: the model orders a snapshot by entity id, the real code by archetype. ' + FTB,
   technique='Coq proof (induction over joint lists; case analysis of the apply function) + per-frame differential correspondence on skinned-mesh histories',
   design='5/C16'),
 'C17': dict(
   text='Coq theorems over the nine fix_* systems of the frame-level model, for ALL peer states, ALL executable orders, ALL oracles: a trigger component added since the system last ran gets its companions by the end of the frame (wherever the scheduler placed the system; despawned meanwhile = nothing happens), all of them when nobody else inserts a lone one; however the component arrived, one further frame later they are there; a fix command changes nothing but the companions it inserts (values AND ticks of every other component, queue, tokens, outgoing messages, links, maps untouched), so the change detectors queue exactly what they would have queued; entities that already have the companions are left alone.' + FNOTE,
   note='The Visibility system fires only if BOTH companions are absent (as the Rust query says): a lone ViewVisibility inserted by someone else disables it (proved as a lemma, hypothesis companions_reserved). ' + FTB,
   technique='Coq proof (tick invariants, induction over the system list of a frame) + per-frame differential correspondence; oracle: companions present after every frame',
   design='5/C17'),
})

PENDING = {
 'C01': 'protocol model under construction; check not built yet',
 'C02': 'protocol model under construction; check not built yet',
 'C03': 'protocol model under construction; check not built yet',
 'C04': 'protocol model under construction; check not built yet',
 'C05': 'protocol model under construction; check not built yet',
 'C06': 'protocol model under construction; check not built yet',
 'C07': 'protocol model under construction; check not built yet',
 'C08': 'protocol model under construction; check not built yet',
 'C09': 'protocol model under construction; check not built yet',
 'C10': 'protocol model under construction; check not built yet',
 'C11': 'codec proofs under construction; check not built yet',
 'C12': 'codec proofs under construction; check not built yet',
 'C13': 'codec proofs under construction; check not built yet',
 'C15': 'protocol model under construction; check not built yet',
 'C16': 'protocol model under construction; check not built yet',
 'C17': 'protocol model under construction; check not built yet',
}
for k in CLAIMED:
    PENDING.pop(k, None)
m = dict(
  version=1,
  setup_cmd='tools/bv setup',
  hooks=dict(guard='verif_hooks (cargo feature of bevy_sync)',
             enable='harness/Cargo.toml depends on bevy_sync = { path = "/repo", features = ["verif_hooks"] }',
             baseline_off_cmd='cd /repo && cargo test --workspace --no-fail-fast --offline',
             source_commits=['04a433e', '82279e3'], add_only=True),
  engines=[dict(name='coq', path='coq/', serves_properties=sorted(CLAIMED), kind_free_text='Coq 8.16.1 development: executable model + theorems; coq/gen regenerated from /repo/src on every run'),
           dict(name='harness', path='harness/', serves_properties=sorted(CLAIMED), kind_free_text='Rust crate driving the real bevy_sync code (feature verif_hooks)'),
           dict(name='driver', path='ocaml/', serves_properties=sorted(CLAIMED), kind_free_text='OCaml driver of the extracted model (correspondence check)')],
  checks=[dict(property_id=p, quick_cmd='tools/bv check %s --tier quick' % p, thorough_cmd='tools/bv check %s --tier thorough' % p,
               evidence_file='/verif/evidence/%s.json' % p, replay_cmd_template='tools/bv replay {path}', engine='coq',
               level_claimed=dict(category='proof', text=c['text'], design_ref=c['design']), level_note=c['note'], technique=c['technique'])
          for p, c in sorted(CLAIMED.items())],
  notes='See DESIGN.md. known_findings.json lists repaired (fixed:) and open findings.',
  not_applicable=[dict(property_id=p, reason=r) for p, r in sorted(PENDING.items())],
)
json.dump(m, open(os.path.join(V, 'MANIFEST.json'), 'w'), indent=1)
print('MANIFEST.json: %d checks, %d not claimed' % (len(m['checks']), len(m['not_applicable'])))
