//! Small utilities: deterministic PRNG (every random choice of a run derives from one seed),
//! hex, line output.
use std::fmt::Write as _;

#[derive(Clone)]
pub struct Rng(pub u64);

impl Rng {
    pub fn new(seed: u64) -> Self {
        Rng(seed ^ 0x9E37_79B9_7F4A_7C15)
    }
    pub fn next_u64(&mut self) -> u64 {
        // splitmix64
        self.0 = self.0.wrapping_add(0x9E37_79B9_7F4A_7C15);
        let mut z = self.0;
        z = (z ^ (z >> 30)).wrapping_mul(0xBF58_476D_1CE4_E5B9);
        z = (z ^ (z >> 27)).wrapping_mul(0x94D0_49BB_1331_11EB);
        z ^ (z >> 31)
    }
    pub fn below(&mut self, n: u64) -> u64 {
        if n == 0 {
            0
        } else {
            self.next_u64() % n
        }
    }
    pub fn range(&mut self, lo: u64, hi: u64) -> u64 {
        lo + self.below(hi - lo + 1)
    }
    pub fn chance(&mut self, num: u64, den: u64) -> bool {
        self.below(den) < num
    }
    pub fn pick<'a, T>(&mut self, v: &'a [T]) -> &'a T {
        &v[self.below(v.len() as u64) as usize]
    }
    pub fn bytes(&mut self, n: usize) -> Vec<u8> {
        (0..n).map(|_| self.next_u64() as u8).collect()
    }
    pub fn fork(&mut self) -> Rng {
        Rng::new(self.next_u64())
    }
}

pub fn hex(b: &[u8]) -> String {
    if b.is_empty() {
        return "-".to_string();
    }
    let mut s = String::with_capacity(b.len() * 2);
    for x in b {
        let _ = write!(s, "{:02x}", x);
    }
    s
}

pub fn unhex(s: &str) -> Vec<u8> {
    if s == "-" {
        return vec![];
    }
    (0..s.len() / 2)
        .map(|i| u8::from_str_radix(&s[2 * i..2 * i + 2], 16).unwrap())
        .collect()
}

/// Byte payloads with structure: constant, periodic, random, mixtures — meant to drive a
/// compressor through its literal/match length boundaries.
pub fn payload(rng: &mut Rng, n: usize) -> Vec<u8> {
    match rng.below(6) {
        0 => vec![rng.next_u64() as u8; n],
        1 => {
            let p = *rng.pick(&[1usize, 2, 3, 4, 5, 7, 16, 255, 256, 257]);
            let pat = rng.bytes(p);
            (0..n).map(|i| pat[i % p]).collect()
        }
        2 => rng.bytes(n),
        3 => {
            // random with long repeats
            let mut v = Vec::with_capacity(n);
            while v.len() < n {
                if rng.chance(1, 2) || v.len() < 8 {
                    let k = rng.range(1, 40) as usize;
                    v.extend(rng.bytes(k));
                } else {
                    let back = rng.range(1, v.len().min(70000) as u64) as usize;
                    let len = *rng.pick(&[4usize, 5, 18, 19, 20, 273, 274, 275, 600]);
                    for _ in 0..len {
                        let b = v[v.len() - back];
                        v.push(b);
                    }
                }
            }
            v.truncate(n);
            v
        }
        4 => (0..n).map(|i| (i / 3) as u8).collect(),
        _ => {
            let mut v = rng.bytes(n);
            for x in v.iter_mut() {
                *x &= 3;
            }
            v
        }
    }
}
