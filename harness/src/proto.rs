//! Scenario runner: drives real bevy_sync Apps (real renet over loopback UDP, real HTTP) through a
//! scripted history and writes the trace the Coq model replays: for every frame the oracle
//! values (executable order of Update, connection events, messages received) and the
//! observables (states, tracker statistics, world projection).
use bevy::ecs::schedule::ExecutorKind;
use bevy::pbr::PbrPlugin;
use bevy::prelude::*;
use bevy::render::mesh::skinning::{SkinnedMesh, SkinnedMeshInverseBindposes};
use bevy::state::app::StatesPlugin;
use bevy_renet::renet::transport::{NetcodeClientTransport, NetcodeServerTransport};
use bevy_renet::renet::{RenetClient, RenetServer};
use bevy_sync::prelude::*;
use bevy_sync::verif::{self, VMessage};
use std::collections::HashMap;
use std::fmt::Write as _;
use std::net::{IpAddr, Ipv4Addr, Ipv6Addr, SocketAddr, TcpListener, UdpSocket};
use std::panic::{catch_unwind, AssertUnwindSafe};
use std::sync::{Arc, Mutex};
use uuid::Uuid;

// ---- component family (type ids as in coq/theories/Sync/Types.v) ---------------------------
#[derive(Component, Reflect, Default, Clone, PartialEq, Debug)]
#[reflect(Component)]
pub struct PA {
    pub value: i32,
}
// PB's reflection type path is NOT what std::any::type_name says (as for any component with a
// #[type_path] of its own, a generic one over glam types, or one declared inside a function body):
// receivers resolve components by type path, so every sender must name them by type path (S30)
#[derive(Component, Reflect, Default, Clone, PartialEq, Debug)]
#[reflect(Component)]
#[type_path = "bsh::renamed"]
pub struct PB(pub u32);

pub const T_A: u32 = 0;
pub const T_B: u32 = 1;
pub const T_TRANSFORM: u32 = 2;
pub const T_VISIBILITY: u32 = 3;
pub const T_POINTLIGHT: u32 = 4;
pub const T_SPOTLIGHT: u32 = 5;
pub const T_DIRLIGHT: u32 = 6;
pub const T_NAME: u32 = 7;
pub const T_SKIN: u32 = 8;
pub const T_MAPPER: u32 = 9;

fn type_path_of(t: u32) -> String {
    match t {
        T_A => PA::type_path().to_string(),
        T_B => PB::type_path().to_string(),
        T_TRANSFORM => Transform::type_path().to_string(),
        T_VISIBILITY => Visibility::type_path().to_string(),
        T_POINTLIGHT => PointLight::type_path().to_string(),
        T_SPOTLIGHT => SpotLight::type_path().to_string(),
        T_DIRLIGHT => DirectionalLight::type_path().to_string(),
        T_NAME => Name::type_path().to_string(),
        T_SKIN => SkinnedMesh::type_path().to_string(),
        T_MAPPER => "bevy_sync::lib_priv::SkinnedMeshSyncMapper".to_string(),
        _ => panic!("type id {}", t),
    }
}

fn tyid_of_path(p: &str) -> Option<u32> {
    (0..=9).find(|t| type_path_of(*t) == p)
}

fn vis_of(n: u64) -> Visibility {
    match n % 3 {
        0 => Visibility::Inherited,
        1 => Visibility::Hidden,
        _ => Visibility::Visible,
    }
}
fn vis_to(v: &Visibility) -> u64 {
    match v {
        Visibility::Inherited => 0,
        Visibility::Hidden => 1,
        Visibility::Visible => 2,
    }
}

fn register(app: &mut App, t: u32) {
    match t {
        T_A => {
            app.sync_component::<PA>();
        }
        T_B => {
            app.sync_component::<PB>();
        }
        T_TRANSFORM => {
            app.sync_component::<Transform>();
        }
        T_VISIBILITY => {
            app.sync_component::<Visibility>();
        }
        T_POINTLIGHT => {
            app.sync_component::<PointLight>();
        }
        T_SPOTLIGHT => {
            app.sync_component::<SpotLight>();
        }
        T_DIRLIGHT => {
            app.sync_component::<DirectionalLight>();
        }
        T_NAME => {
            app.sync_component::<Name>();
        }
        T_SKIN => {
            app.sync_component::<SkinnedMesh>();
        }
        _ => panic!("register {}", t),
    }
}

/// insert / overwrite component `t` with model value `n` on entity `e`
fn write_value(world: &mut World, e: Entity, t: u32, n: u64) {
    let Some(mut em) = world.get_entity_mut(e) else { return };
    match t {
        T_A => {
            em.insert(PA { value: n as i32 });
        }
        T_B => {
            em.insert(PB(n as u32));
        }
        T_TRANSFORM => {
            em.insert(Transform::from_xyz(n as f32, 0.0, 0.0));
        }
        T_VISIBILITY => {
            em.insert(vis_of(n));
        }
        T_POINTLIGHT => {
            em.insert(PointLight { intensity: n as f32, ..Default::default() });
        }
        T_SPOTLIGHT => {
            em.insert(SpotLight { intensity: n as f32, ..Default::default() });
        }
        T_DIRLIGHT => {
            em.insert(DirectionalLight { illuminance: n as f32, ..Default::default() });
        }
        T_NAME => {
            // values from 100000 up stand for a name of that many characters (large payloads)
            em.insert(Name::new(if n >= 100_000 { "x".repeat(n as usize) } else { format!("{}", n) }));
        }
        100 => {
            // a GlobalTransform of the application's own (not what the companion fix would insert)
            em.insert((GlobalTransform::from_xyz(n as f32, 0.0, 0.0), AppOwnedGlobal));
        }
        _ => panic!("write {}", t),
    }
}

/// marks a GlobalTransform the scenario wrote itself
#[derive(Component)]
pub struct AppOwnedGlobal;

fn read_values(e: &EntityRef) -> Vec<(u32, String)> {
    let mut v = vec![];
    if let Some(c) = e.get::<PA>() {
        v.push((T_A, format!("{}", c.value as u32 as u64)));
    }
    if let Some(c) = e.get::<PB>() {
        v.push((T_B, format!("{}", c.0)));
    }
    if let Some(c) = e.get::<Transform>() {
        v.push((T_TRANSFORM, format!("{}", c.translation.x as u64)));
    }
    if let Some(c) = e.get::<Visibility>() {
        v.push((T_VISIBILITY, format!("{}", vis_to(c))));
    }
    if let Some(c) = e.get::<PointLight>() {
        v.push((T_POINTLIGHT, format!("{}", c.intensity as u64)));
    }
    if let Some(c) = e.get::<SpotLight>() {
        v.push((T_SPOTLIGHT, format!("{}", c.intensity as u64)));
    }
    if let Some(c) = e.get::<DirectionalLight>() {
        v.push((T_DIRLIGHT, format!("{}", c.illuminance as u64)));
    }
    if let Some(c) = e.get::<Name>() {
        v.push((T_NAME, name_value(c)));
    }
    use bevy::pbr::{CascadeShadowConfig, Cascades, CascadesVisibleEntities, CubemapVisibleEntities};
    use bevy::render::primitives::{CascadesFrusta, CubemapFrusta, Frustum};
    // GlobalTransform: its value is printed only when the application wrote it itself (marker set by the
    // `write h 100 v` operation); what the companion fix inserted is printed as presence ("0")
    if let Some(g) = e.get::<GlobalTransform>() {
        v.push((100, if e.contains::<AppOwnedGlobal>() { format!("{}", g.translation().x as u64) } else { "0".to_string() }));
    }
    let mut comp = |t: u32, has: bool| {
        if has {
            v.push((t, "0".to_string()));
        }
    };
    comp(101, e.contains::<ViewVisibility>());
    comp(102, e.contains::<InheritedVisibility>());
    comp(103, e.contains::<CubemapFrusta>());
    comp(104, e.contains::<CubemapVisibleEntities>());
    comp(105, e.contains::<Frustum>());
    comp(106, e.contains::<CascadesFrusta>());
    comp(107, e.contains::<CascadesVisibleEntities>());
    comp(108, e.contains::<Cascades>());
    comp(109, e.contains::<CascadeShadowConfig>());
    v
}

fn name_value(c: &Name) -> String {
    if c.as_str().len() >= 100_000 {
        format!("{}", c.as_str().len())
    } else {
        c.as_str().to_string()
    }
}

fn has_exclude(e: &EntityRef, t: u32) -> bool {
    match t {
        T_A => e.contains::<SyncExclude<PA>>(),
        T_B => e.contains::<SyncExclude<PB>>(),
        T_TRANSFORM => e.contains::<SyncExclude<Transform>>(),
        T_VISIBILITY => e.contains::<SyncExclude<Visibility>>(),
        T_POINTLIGHT => e.contains::<SyncExclude<PointLight>>(),
        T_NAME => e.contains::<SyncExclude<Name>>(),
        T_SKIN => e.contains::<SyncExclude<SkinnedMesh>>(),
        _ => false,
    }
}

fn set_exclude(world: &mut World, e: Entity, t: u32, on: bool) {
    let Some(mut em) = world.get_entity_mut(e) else { return };
    macro_rules! ex {
        ($T:ty) => {
            if on {
                em.insert(SyncExclude::<$T>::default());
            } else {
                em.remove::<SyncExclude<$T>>();
            }
        };
    }
    match t {
        T_A => ex!(PA),
        T_B => ex!(PB),
        T_TRANSFORM => ex!(Transform),
        T_VISIBILITY => ex!(Visibility),
        T_POINTLIGHT => ex!(PointLight),
        T_NAME => ex!(Name),
        T_SKIN => ex!(SkinnedMesh),
        _ => panic!("exclude {}", t),
    }
}

// ---- system names -> model sysids --------------------------------------------------------------
fn sys_name(full: &str) -> Option<String> {
    let m = [
        ("bevy_sync::bundle_fix::fix_visibility_bundle", "FixVisibility"),
        ("bevy_sync::bundle_fix::fix_missing_global_transforms", "FixGlobalTransform"),
        ("bevy_sync::bundle_fix::fix_missing_cubemap_frusta_directional", "FixCascadesFrusta"),
        ("bevy_sync::bundle_fix::fix_missing_cubemap_frusta", "FixCubemapFrusta"),
        ("bevy_sync::bundle_fix::fix_missing_cubemap_visible_entities_directional", "FixCascadesVisible"),
        ("bevy_sync::bundle_fix::fix_missing_cubemap_visible_entities", "FixCubemapVisible"),
        ("bevy_sync::bundle_fix::fix_missing_cubemap_frustum_spot", "FixSpotFrustum"),
        ("bevy_sync::bundle_fix::fix_missing_cascades_shadow_config_directional", "FixCascadeShadowCfg"),
        ("bevy_sync::bundle_fix::fix_missing_cascades_directional", "FixCascades"),
        ("bevy_sync::server::server_connected", "SrvConnected"),
        ("bevy_sync::server::server_disconnected", "SrvDisconnected"),
        ("bevy_sync::server::track::entity_removed_from_server", "SrvRemoved"),
        ("bevy_sync::server::track::entity_created_on_server", "SrvCreated"),
        ("bevy_sync::server::track::entity_parented_on_server", "SrvParented"),
        ("bevy_sync::server::track::react_on_changed_components", "SrvReact"),
        ("bevy_sync::server::track::react_on_changed_materials", "SrvMat"),
        ("bevy_sync::server::track::react_on_changed_images", "SrvImg"),
        ("bevy_sync::server::track::react_on_changed_meshes", "SrvMesh"),
        ("bevy_sync::server::track::react_on_changed_audios", "SrvAudio"),
        ("bevy_sync::server::promote_to_host_event_reader", "SrvPromote"),
        ("bevy_sync::server::client_connected", "SrvClientConnected"),
        ("bevy_sync::server::receiver::poll_for_messages", "SrvPoll"),
        ("bevy_sync::client::set_client_to_connecting", "CliConnecting"),
        ("bevy_sync::client::verify_client_connected", "CliVerify"),
        ("bevy_sync::client::set_client_to_disconnected", "CliDisconnected"),
        ("bevy_sync::client::track::entity_removed_from_client", "CliRemoved"),
        ("bevy_sync::client::track::entity_created_on_client", "CliCreated"),
        ("bevy_sync::client::track::entity_parented_on_client", "CliParented"),
        ("bevy_sync::client::track::react_on_changed_components", "CliReact"),
        ("bevy_sync::client::track::react_on_changed_materials", "CliMat"),
        ("bevy_sync::client::track::react_on_changed_images", "CliImg"),
        ("bevy_sync::client::track::react_on_changed_meshes", "CliMesh"),
        ("bevy_sync::client::track::react_on_changed_audios", "CliAudio"),
        ("bevy_sync::client::receiver::poll_for_messages", "CliPoll"),
        ("bevy_sync::networking::assets::process_mesh_assets", "ProcMesh"),
        ("bevy_sync::networking::assets::process_image_assets", "ProcImage"),
        ("bevy_sync::networking::assets::process_audio_assets", "ProcAudio"),
        ("bevy_sync::lib_priv::sync_skinned_mesh", "Detect:8"),
        ("bevy_ecs::schedule::executor::apply_deferred", "Sync"),
    ];
    for (k, v) in m {
        if full == k {
            return Some(v.to_string());
        }
    }
    if let Some(rest) = full.strip_prefix("bevy_sync::lib_priv::sync_detect<") {
        // a system is named after std::any::type_name of its type parameter, not its reflection type path
        let ty = rest.trim_end_matches('>');
        if ty == std::any::type_name::<PB>() {
            return Some(format!("Detect:{}", T_B));
        }
        return tyid_of_path(ty).map(|t| format!("Detect:{}", t));
    }
    if let Some(rest) = full.strip_prefix("bsh::proto::app_system_") {
        return Some(format!("App:{}", rest));
    }
    if full.starts_with("bevy_sync::") {
        return Some(format!("UNKNOWN:{}", full));
    }
    None
}

fn schedule_order(app: &App) -> Option<Vec<String>> {
    let sched = app.get_schedule(Update)?;
    let it = sched.systems().ok()?;
    Some(it.filter_map(|(_, s)| sys_name(&s.name())).collect())
}

// ---- peers -----------------------------------------------------------------------------------
type Tap = Arc<Mutex<Vec<(bool, Option<u64>, VMessage)>>>;

pub struct Peer {
    pub app: App,
    pub is_setup: bool,
    pub client_id: Option<u64>,
    pub old_client_ids: Vec<u64>,
    pub last_order: Vec<String>,
    pub last_registry: Vec<u32>,
    pub local_asset_ops: Vec<(u8, Uuid)>,
    pub dropped_seen: usize,
    pub dropped_flights: Vec<(u8, Uuid, u64)>,
    pub own_port: u16,
    pub web_port: u16,
    pub prev_clients: Vec<u32>,
    pub regs: Vec<u32>,
    pub panicked: bool,
    /// bind-pose assets created by `skin` operations of this peer, by content: a second entity skinned
    /// with the same poses SHARES the asset (one glTF skin used by several primitives)
    pub pose_handles: HashMap<Vec<u64>, Handle<SkinnedMeshInverseBindposes>>,
}

pub struct Session {
    /// never updated, never connected: only its type registry is used, to decode payloads for printing
    pub decoder: App,
    pub peers: Vec<Peer>,
    pub ip: IpAddr,
    pub port: u16,
    pub tap: Tap,
    /// script handle -> (owner peer, entity)
    pub script: HashMap<u64, (usize, Entity)>,
    pub uuid_of: HashMap<u64, Uuid>,
    pub handle_of: HashMap<Uuid, u64>,
    pub out: String,
    pub executor_mt: bool,
    pub quiet_rounds: u32,
    pub received_in_round: usize,
}

fn free_udp(ip: IpAddr) -> u16 {
    UdpSocket::bind(SocketAddr::new(ip, 0)).unwrap().local_addr().unwrap().port()
}
/// A UDP port for a socket that is bound LATER (the server of a peer that may be promoted): taken from a
/// range of this process's own below the ephemeral range, so that neither the operating system nor another
/// harness process running in parallel hands it out in between.
fn reserved_udp(ip: IpAddr) -> u16 {
    static NEXT: std::sync::atomic::AtomicU16 = std::sync::atomic::AtomicU16::new(0);
    let base = 10_000 + (std::process::id() % 400) as u16 * 50;
    for _ in 0..50 {
        let k = NEXT.fetch_add(1, std::sync::atomic::Ordering::Relaxed) % 50;
        if UdpSocket::bind(SocketAddr::new(ip, base + k)).is_ok() {
            return base + k;
        }
    }
    free_udp(ip)
}
fn free_tcp(ip: IpAddr) -> u16 {
    TcpListener::bind(SocketAddr::new(ip, 0)).unwrap().local_addr().unwrap().port()
}

#[derive(Resource, Default)]
pub struct FinCount(pub usize);

/// asset events of the frame, recorded in Last after Assets::asset_events: (kind, uuid)
#[derive(Resource, Default)]
pub struct AssetLog(pub Vec<(u8, Uuid)>);

fn log_asset_events(
    mut log: ResMut<AssetLog>,
    mut m: EventReader<AssetEvent<StandardMaterial>>,
    mut me: EventReader<AssetEvent<Mesh>>,
    mut im: EventReader<AssetEvent<Image>>,
    mut au: EventReader<AssetEvent<AudioSource>>,
) {
    fn id_of<A: Asset>(e: &AssetEvent<A>) -> Option<Uuid> {
        match e {
            AssetEvent::Added { id } | AssetEvent::Modified { id } => match id {
                AssetId::Uuid { uuid } => Some(*uuid),
                _ => None,
            },
            _ => None,
        }
    }
    for e in m.read() {
        if let Some(u) = id_of(e) {
            log.0.push((0, u));
        }
    }
    for e in me.read() {
        if let Some(u) = id_of(e) {
            log.0.push((1, u));
        }
    }
    for e in im.read() {
        if let Some(u) = id_of(e) {
            log.0.push((2, u));
        }
    }
    for e in au.read() {
        if let Some(u) = id_of(e) {
            log.0.push((3, u));
        }
    }
}

/// ServerEvents of the frame, recorded in PreUpdate after renet's receive set: (connected?, client id)
#[derive(Resource, Default)]
pub struct ConnLog(pub Vec<(bool, u64)>, pub Vec<u64>);

fn log_server_events(mut log: ResMut<ConnLog>, mut ev: EventReader<bevy_renet::renet::ServerEvent>, server: Option<Res<RenetServer>>) {
    // clients_id() as the Update schedule of this frame will see it
    log.1 = server.map(|s| s.clients_id().iter().map(|c| c.raw()).collect()).unwrap_or_default();
    for e in ev.read() {
        match e {
            bevy_renet::renet::ServerEvent::ClientConnected { client_id } => log.0.push((true, client_id.raw())),
            bevy_renet::renet::ServerEvent::ClientDisconnected { client_id, .. } => log.0.push((false, client_id.raw())),
        }
    }
}

/// commands the application systems issue at their next run
#[derive(Clone, Copy)]
pub enum AppCmd {
    /// commands.entity(e).despawn() if e still exists
    Despawn(Entity),
    /// commands.entity(e).insert(T(v)): an application system writing a component in the middle of a frame
    Insert(Entity, u32, u64),
}
#[derive(Resource, Default)]
pub struct AppCmds(pub Vec<(usize, AppCmd)>);

fn run_app_cmds(k: usize, cmds: &mut AppCmds, commands: &mut Commands) {
    let mine: Vec<AppCmd> = cmds.0.iter().filter(|(i, _)| *i == k).map(|(_, e)| *e).collect();
    cmds.0.retain(|(i, _)| *i != k);
    for c in mine {
        match c {
            AppCmd::Despawn(e) => {
                if let Some(mut ec) = commands.get_entity(e) {
                    ec.despawn();
                }
            }
            AppCmd::Insert(e, t, n) => {
                commands.add(move |world: &mut World| {
                    // EntityCommands::insert on a despawned entity panics (B0003): so does this
                    let _ = world.entity_mut(e);
                    write_value(world, e, t, n);
                });
            }
        }
    }
}
pub fn app_system_0(mut cmds: ResMut<AppCmds>, mut commands: Commands) {
    run_app_cmds(0, &mut cmds, &mut commands);
}
pub fn app_system_1(mut cmds: ResMut<AppCmds>, mut commands: Commands) {
    run_app_cmds(1, &mut cmds, &mut commands);
}
pub fn app_system_2(mut cmds: ResMut<AppCmds>, mut commands: Commands) {
    run_app_cmds(2, &mut cmds, &mut commands);
}
// three more positions in the schedule (the scheduler places unordered systems anywhere): a despawn or insert
// issued between a receiver and the next sync point needs an application system that happens to sit there
pub fn app_system_3(mut cmds: ResMut<AppCmds>, mut commands: Commands) {
    run_app_cmds(3, &mut cmds, &mut commands);
}
pub fn app_system_4(mut cmds: ResMut<AppCmds>, mut commands: Commands) {
    run_app_cmds(4, &mut cmds, &mut commands);
}
pub fn app_system_5(mut cmds: ResMut<AppCmds>, mut commands: Commands) {
    run_app_cmds(5, &mut cmds, &mut commands);
}

const ASSET_BASE: u128 = 0xA55E7_0000_0000_0000;
fn asset_uuid(a: u64) -> Uuid {
    Uuid::from_u128(ASSET_BASE + a as u128)
}
fn asset_handle(u: &Uuid) -> Option<u64> {
    // asset id 0 = the engine's default StandardMaterial / Image handle (a uuid asset present in every App)
    if *u == AssetId::<StandardMaterial>::DEFAULT_UUID {
        return Some(0);
    }
    let x = u.as_u128();
    if x >= ASSET_BASE && x < ASSET_BASE + (1u128 << 40) {
        Some((x - ASSET_BASE) as u64)
    } else {
        None
    }
}
fn mesh_of(v: u64) -> Mesh {
    use bevy::render::{mesh::PrimitiveTopology, render_asset::RenderAssetUsages};
    let mut m = Mesh::new(PrimitiveTopology::TriangleList, RenderAssetUsages::MAIN_WORLD | RenderAssetUsages::RENDER_WORLD);
    m.insert_attribute(Mesh::ATTRIBUTE_POSITION, vec![[v as f32, 0.0, 0.0]]);
    m
}
fn mesh_digest(m: &Mesh) -> String {
    match m.attribute(Mesh::ATTRIBUTE_POSITION) {
        Some(bevy::render::mesh::VertexAttributeValues::Float32x3(p)) if !p.is_empty() => format!("{}", p[0][0] as u64),
        _ => "empty".to_string(),
    }
}
fn image_of(v: u64) -> Image {
    use bevy::render::render_asset::RenderAssetUsages;
    use bevy::render::render_resource::{Extent3d, TextureDimension, TextureFormat};
    Image::new(
        Extent3d { width: 1, height: 1, depth_or_array_layers: 1 },
        TextureDimension::D2,
        vec![(v & 255) as u8, ((v >> 8) & 255) as u8, ((v >> 16) & 255) as u8, 255],
        TextureFormat::Rgba8UnormSrgb,
        RenderAssetUsages::MAIN_WORLD | RenderAssetUsages::RENDER_WORLD,
    )
}
fn image_digest(i: &Image) -> String {
    if i.data.len() >= 3 {
        format!("{}", i.data[0] as u64 + 256 * i.data[1] as u64 + 65536 * i.data[2] as u64)
    } else {
        "empty".to_string()
    }
}
/// values from 1_000_000 on stand for a LARGE audio source (48 MB: its transfer takes many frames)
const BIG_AUDIO: usize = 48 << 20;
fn audio_of(v: u64) -> AudioSource {
    let mut bytes = (v as u32).to_le_bytes().to_vec();
    if v >= 1_000_000 {
        bytes.resize(4 + BIG_AUDIO, 0x5a);
    }
    AudioSource { bytes: bytes.into() }
}
fn audio_digest(a: &AudioSource) -> String {
    let b: &[u8] = a.as_ref();
    if b.len() == 4 || b.len() == 4 + BIG_AUDIO {
        format!("{}", u32::from_le_bytes([b[0], b[1], b[2], b[3]]))
    } else {
        "odd".to_string()
    }
}
/// values from 1_000_000 on stand for a TEXTURED material: v = 1_000_000 + 100 * image asset + r; its
/// base colour texture is the (uuid) image asset of that number
fn material_of(v: u64) -> StandardMaterial {
    let base_color_texture = if v >= 1_000_000 {
        Some(Handle::Weak(AssetId::Uuid { uuid: asset_uuid((v - 1_000_000) / 100) }))
    } else {
        None
    };
    StandardMaterial { perceptual_roughness: v as f32 / 1000.0, base_color_texture, ..Default::default() }
}
fn material_digest(m: &StandardMaterial) -> String {
    format!("{}", (m.perceptual_roughness * 1000.0).round() as u64)
}

fn count_finished(mut r: EventReader<bevy_sync::InitialSyncFinished>, mut c: ResMut<FinCount>) {
    c.0 += r.read().count();
}

fn new_app(host: bool, mt: bool) -> App {
    let mut app = App::new();
    app.add_plugins(MinimalPlugins);
    app.add_plugins(StatesPlugin);
    app.add_plugins(AssetPlugin::default());
    app.init_asset::<Shader>();
    app.init_asset::<Mesh>();
    app.init_asset::<Image>();
    app.init_asset::<AudioSource>();
    app.init_asset::<SkinnedMeshInverseBindposes>();
    app.add_plugins(PbrPlugin::default());
    if std::env::var("BSH_LOG").is_ok() {
        app.add_plugins(bevy::log::LogPlugin { filter: "error,bevy_sync=debug".to_string(), level: bevy::log::Level::DEBUG, ..default() });
    }
    app.add_plugins(SyncPlugin);
    app.init_resource::<FinCount>();
    app.add_systems(Last, count_finished);
    app.init_resource::<AssetLog>();
    app.add_systems(Last, log_asset_events.after(bevy::asset::AssetEvents));
    app.init_resource::<ConnLog>();
    app.init_resource::<Events<bevy_renet::renet::ServerEvent>>();
    app.add_systems(PreUpdate, log_server_events.after(bevy_renet::RenetReceive));
    app.init_resource::<AppCmds>();
    app.add_systems(Update, (app_system_0, app_system_1, app_system_2, app_system_3, app_system_4, app_system_5));
    if !mt {
        app.edit_schedule(Update, |s| {
            s.set_executor_kind(ExecutorKind::SingleThreaded);
        });
    }
    if host {
        // as the repository's tests do: shift the host's entity ids
        app.world_mut().spawn(TransformBundle::default());
    }
    app
}

impl Session {
    pub fn new(npeers: usize, ipv6: bool, mt: bool) -> Session {
        let ip: IpAddr = if ipv6 { IpAddr::V6(Ipv6Addr::LOCALHOST) } else { IpAddr::V4(Ipv4Addr::LOCALHOST) };
        let tap: Tap = Arc::new(Mutex::new(vec![]));
        let t2 = tap.clone();
        verif::set_tap(Some(Box::new(move |is_server, from, m| {
            t2.lock().unwrap().push((is_server, from, m.clone()));
        })));
        let peers = (0..npeers)
            .map(|i| Peer {
                app: new_app(i == 0, mt),
                is_setup: false,
                client_id: None,
                old_client_ids: vec![],
                last_order: vec![],
                last_registry: vec![],
                local_asset_ops: vec![],
                dropped_seen: 0,
                dropped_flights: vec![],
                own_port: 0,
                web_port: 0,
                prev_clients: vec![],
                regs: vec![],
                panicked: false,
                pose_handles: HashMap::new(),
            })
            .collect();
        let mut decoder = new_app(false, false);
        for t in 0..=8 {
            register(&mut decoder, t);
        }
        Session {
            decoder,
            peers,
            ip,
            port: free_udp(ip),
            tap,
            script: HashMap::new(),
            uuid_of: HashMap::new(),
            handle_of: HashMap::new(),
            out: String::new(),
            executor_mt: mt,
            quiet_rounds: 0,
            received_in_round: 0,
        }
    }

    fn peer_of_client(&self, id: u64) -> Option<usize> {
        self.peers.iter().position(|p| p.client_id == Some(id) || p.old_client_ids.contains(&id))
    }

    fn h(&self, u: &Uuid) -> String {
        match self.handle_of.get(u) {
            Some(h) => format!("{}", h),
            None => format!("u{}", &u.simple().to_string()[..8]),
        }
    }

    fn ah(&self, u: &Uuid) -> String {
        asset_handle(u).map(|a| a.to_string()).unwrap_or_else(|| format!("u{}", &u.simple().to_string()[..8]))
    }

    /// the peer whose HTTP endpoint a URL points to
    fn owner_of_url(&self, url: &str) -> String {
        for (i, pr) in self.peers.iter().enumerate() {
            if pr.web_port != 0 && url.contains(&format!(":{}/", pr.web_port)) {
                return i.to_string();
            }
        }
        "?".to_string()
    }

    fn canon(&self, receiver: usize, m: &VMessage) -> String {
        match m {
            VMessage::EntitySpawn { id } => format!("spawn {}", self.h(id)),
            VMessage::EntityParented { entity_id, parent_id } => format!("parented {} {}", self.h(entity_id), self.h(parent_id)),
            VMessage::EntityDelete { id } => format!("delete {}", self.h(id)),
            VMessage::ComponentUpdated { id, name, data } => {
                let t = tyid_of_path(name).map(|t| t.to_string()).unwrap_or_else(|| format!("?{}", name));
                format!("comp {} {} {}", self.h(id), t, self.decode_value(receiver, name, data))
            }
            VMessage::StandardMaterialUpdated { id, material } => {
                format!("mat {} {}", self.ah(id), self.decode_material(receiver, material))
            }
            VMessage::MeshUpdated { id, url } => format!("asset mesh {} {}", self.ah(id), self.owner_of_url(url)),
            VMessage::ImageUpdated { id, url } => format!("asset image {} {}", self.ah(id), self.owner_of_url(url)),
            VMessage::AudioUpdated { id, url } => format!("asset audio {} {}", self.ah(id), self.owner_of_url(url)),
            VMessage::PromoteToHost => "promote".to_string(),
            VMessage::NewHost { port, .. } => format!("newhost {}", port),
            VMessage::RequestInitialSync => "reqinit".to_string(),
            VMessage::FinishedInitialSync => "fininit".to_string(),
        }
    }

    /// value carried by a ComponentUpdated payload, in model syntax; decoded with the registry of
    /// peer 0 (all family types are registered there by construction of the scenarios) — falls
    /// back to a digest when it cannot be decoded.
    fn decode_value(&self, _receiver: usize, name: &str, data: &[u8]) -> String {
        let world = self.decoder.world();
        let reg = world.resource::<AppTypeRegistry>().clone();
        let reg = reg.read();
        if reg.get_with_type_path(name).is_none() {
            return format!("x{}", crate::util::hex(&data[..data.len().min(8)]));
        }
        let r = catch_unwind(AssertUnwindSafe(|| verif::bin_to_reflect(data, &reg)));
        let Ok(v) = r else { return "undecodable".to_string() };
        if let Some(c) = v.downcast_ref::<PA>() {
            return format!("{}", c.value as u32 as u64);
        }
        if let Some(c) = <PB as FromReflect>::from_reflect(&*v) {
            if name == PB::type_path() {
                return format!("{}", c.0);
            }
        }
        if let Some(c) = v.downcast_ref::<Transform>() {
            return format!("{}", c.translation.x as u64);
        }
        if name == Visibility::type_path() {
            if let Some(c) = <Visibility as FromReflect>::from_reflect(&*v) {
                return format!("{}", vis_to(&c));
            }
        }
        if let Some(c) = v.downcast_ref::<PointLight>() {
            return format!("{}", c.intensity as u64);
        }
        if let Some(c) = v.downcast_ref::<SpotLight>() {
            return format!("{}", c.intensity as u64);
        }
        if let Some(c) = v.downcast_ref::<DirectionalLight>() {
            return format!("{}", c.illuminance as u64);
        }
        if let Some(c) = v.downcast_ref::<Name>() {
            return name_value(c);
        }
        if name == "bevy_sync::lib_priv::SkinnedMeshSyncMapper" {
            // struct { inverse_bindposes: Vec<Mat4>, joints: Vec<Uuid> }
            if let bevy::reflect::ReflectRef::Struct(s) = v.reflect_ref() {
                let mut joints = vec![];
                if let Some(j) = s.field("joints") {
                    if let bevy::reflect::ReflectRef::List(l) = j.reflect_ref() {
                        for x in l.iter() {
                            if let Some(u) = x.downcast_ref::<Uuid>() {
                                joints.push(self.h(u));
                            }
                        }
                    }
                }
                let mut poses = vec![];
                if let Some(p) = s.field("inverse_bindposes") {
                    if let bevy::reflect::ReflectRef::List(l) = p.reflect_ref() {
                        for x in l.iter() {
                            if let Some(m) = x.downcast_ref::<Mat4>() {
                                poses.push(format!("{}", m.x_axis.x as u64));
                            }
                        }
                    }
                }
                return format!("mapper[{}][{}]", joints.join(";"), poses.join(";"));
            }
        }
        "unknown".to_string()
    }

    fn decode_material(&self, _receiver: usize, data: &[u8]) -> String {
        let world = self.decoder.world();
        let reg = world.resource::<AppTypeRegistry>().clone();
        let reg = reg.read();
        let r = catch_unwind(AssertUnwindSafe(|| verif::bin_to_reflect(data, &reg)));
        match r {
            Ok(v) => match v.downcast_ref::<StandardMaterial>() {
                Some(m) => format!("{}", (m.perceptual_roughness * 1000.0).round() as u64),
                None => "notmaterial".to_string(),
            },
            Err(_) => "undecodable".to_string(),
        }
    }

    // ---- application operations ----------------------------------------------------------------
    fn resolve(&mut self, p: usize, h: u64) -> Option<Entity> {
        if let Some((owner, e)) = self.script.get(&h) {
            if *owner == p {
                return Some(*e);
            }
        }
        let u = *self.uuid_of.get(&h)?;
        let world = self.peers[p].app.world_mut();
        let mut q = world.query::<(Entity, &SyncEntity)>();
        q.iter(world).find(|(_, s)| s.uuid == u).map(|(e, _)| e)
    }

    pub fn op(&mut self, p: usize, w: &[&str]) {
        writeln!(self.out, "OP {} {}", p, w.join(" ")).unwrap();
        match w[0] {
            "setup" => {
                let web = free_tcp(self.ip);
                self.peers[p].web_port = web;
                let params = SyncConnectionParameters::Socket { ip: self.ip, port: self.port, web_port: web, max_transfer: 100_000_000 };
                if p == 0 {
                    self.peers[p].app.add_plugins(ServerPlugin { parameters: params });
                } else {
                    self.peers[p].app.add_plugins(ClientPlugin { parameters: params });
                    let id = self.peers[p].app.world().resource::<NetcodeClientTransport>().client_id().raw();
                    self.peers[p].client_id = Some(id);
                    // as the repository's promotion test does: every peer that may become host gets its own port
                    let own = reserved_udp(self.ip);
                    self.peers[p].own_port = own;
                    if let SyncConnectionParameters::Socket { ref mut port, .. } = *self.peers[p].app.world_mut().resource_mut::<SyncConnectionParameters>() {
                        *port = own;
                    }
                }
                self.peers[p].is_setup = true;
            }
            "reg" => {
                let t: u32 = w[1].parse().unwrap();
                register(&mut self.peers[p].app, t);
                self.peers[p].regs.push(t);
            }
            "switches" => {
                let app = &mut self.peers[p].app;
                app.sync_materials(w[1] == "1");
                app.sync_meshes(w[2] == "1");
                app.sync_audios(w[3] == "1");
            }
            "spawn" => {
                // spawn h marked t:v ...
                let h: u64 = w[1].parse().unwrap();
                let marked = w[2] == "1";
                let world = self.peers[p].app.world_mut();
                let e = if marked { world.spawn(SyncMark).id() } else { world.spawn_empty().id() };
                for tv in &w[3..] {
                    let (t, v) = tv.split_once(':').unwrap();
                    write_value(world, e, t.parse().unwrap(), v.parse().unwrap());
                }
                self.script.insert(h, (p, e));
            }
            "mark" => {
                let h: u64 = w[1].parse().unwrap();
                if let Some(e) = self.resolve(p, h) {
                    if let Some(mut em) = self.peers[p].app.world_mut().get_entity_mut(e) {
                        em.insert(SyncMark);
                    }
                }
            }
            "despawn" => {
                let h: u64 = w[1].parse().unwrap();
                if let Some(e) = self.resolve(p, h) {
                    self.peers[p].app.world_mut().despawn(e);
                }
            }
            "write" => {
                let h: u64 = w[1].parse().unwrap();
                if let Some(e) = self.resolve(p, h) {
                    write_value(self.peers[p].app.world_mut(), e, w[2].parse().unwrap(), w[3].parse().unwrap());
                }
            }
            "excl" => {
                let h: u64 = w[1].parse().unwrap();
                if let Some(e) = self.resolve(p, h) {
                    set_exclude(self.peers[p].app.world_mut(), e, w[2].parse().unwrap(), w[3] == "1");
                }
            }
            "parent" => {
                let c: u64 = w[1].parse().unwrap();
                let par: u64 = w[2].parse().unwrap();
                if let (Some(ce), Some(pe)) = (self.resolve(p, c), self.resolve(p, par)) {
                    let world = self.peers[p].app.world_mut();
                    if world.get_entity(ce).is_some() && world.get_entity(pe).is_some() && ce != pe {
                        world.entity_mut(pe).add_child(ce);
                    }
                }
            }
            "addasset" => {
                // addasset kind(0 material,1 mesh,2 image,3 audio) a v
                let k: u8 = w[1].parse().unwrap();
                let a: u64 = w[2].parse().unwrap();
                let v: u64 = w[3].parse().unwrap();
                let u = asset_uuid(a);
                let world = self.peers[p].app.world_mut();
                match k {
                    0 => world.resource_mut::<Assets<StandardMaterial>>().insert(u, material_of(v)),
                    1 => world.resource_mut::<Assets<Mesh>>().insert(u, mesh_of(v)),
                    2 => world.resource_mut::<Assets<Image>>().insert(u, image_of(v)),
                    _ => world.resource_mut::<Assets<AudioSource>>().insert(u, audio_of(v)),
                }
                self.peers[p].local_asset_ops.push((k, u));
            }
            "addasset_index" => {
                // an asset under a runtime index id: must never be replicated
                let k: u8 = w[1].parse().unwrap();
                let v: u64 = w[2].parse().unwrap();
                let world = self.peers[p].app.world_mut();
                match k {
                    0 => std::mem::forget(world.resource_mut::<Assets<StandardMaterial>>().add(material_of(v))),
                    1 => std::mem::forget(world.resource_mut::<Assets<Mesh>>().add(mesh_of(v))),
                    2 => std::mem::forget(world.resource_mut::<Assets<Image>>().add(image_of(v))),
                    _ => std::mem::forget(world.resource_mut::<Assets<AudioSource>>().add(audio_of(v))),
                }
            }
            "promote" => {
                let c: usize = w[1].parse().unwrap();
                if let Some(id) = self.peers[c].client_id {
                    self.peers[p].app.world_mut().send_event(bevy_sync::PromoteToHostEvent { id: bevy_renet::renet::ClientId::from_raw(id) });
                }
            }
            "appcmd" => {
                // appcmd n despawn h | appcmd n insert h t v
                let n: usize = w[1].parse().unwrap();
                let h: u64 = w[3].parse().unwrap();
                if let Some(e) = self.resolve(p, h) {
                    let c = if w[2] == "insert" {
                        AppCmd::Insert(e, w[4].parse().unwrap(), w[5].parse().unwrap())
                    } else {
                        AppCmd::Despawn(e)
                    };
                    self.peers[p].app.world_mut().resource_mut::<AppCmds>().0.push((n, c));
                }
            }
            "skin" => {
                // skin h j1,j2,.. p1,p2,..
                let h: u64 = w[1].parse().unwrap();
                let joints: Vec<u64> = if w[2] == "-" { vec![] } else { w[2].split(',').map(|x| x.parse().unwrap()).collect() };
                let poses: Vec<u64> = if w[3] == "-" { vec![] } else { w[3].split(',').map(|x| x.parse().unwrap()).collect() };
                let js: Vec<Entity> = joints.iter().filter_map(|j| self.resolve(p, *j)).collect();
                if let Some(e) = self.resolve(p, h) {
                    let world = self.peers[p].app.world_mut();
                    let mats: Vec<Mat4> = poses.iter().map(|x| Mat4::from_cols_array(&[*x as f32, 0., 0., 0., 0., 1., 0., 0., 0., 0., 1., 0., 0., 0., 0., 1.])).collect();
                    let shared = self.peers[p].pose_handles.get(&poses).cloned();
                    let world = self.peers[p].app.world_mut();
                    let still_there = shared.as_ref().map(|hd| {
                        world.resource::<Assets<SkinnedMeshInverseBindposes>>().get(hd).map(|a| a.len() == mats.len() && a.iter().zip(mats.iter()).all(|(x, y)| x == y)).unwrap_or(false)
                    }).unwrap_or(false);
                    let handle = if still_there && !poses.is_empty() {
                        shared.unwrap()
                    } else {
                        let hd = world.resource_mut::<Assets<SkinnedMeshInverseBindposes>>().add(SkinnedMeshInverseBindposes::from(mats));
                        self.peers[p].pose_handles.insert(poses.clone(), hd.clone());
                        hd
                    };
                    let world = self.peers[p].app.world_mut();
                    if let Some(mut em) = world.get_entity_mut(e) {
                        em.insert(SkinnedMesh { inverse_bindposes: handle, joints: js });
                    }
                }
            }
            "reconnect" => {
                // a client joins the same host again with fresh renet objects (what an application does
                // after a lost connection); entities of the earlier session are still in its world
                use bevy_renet::renet::transport::ClientAuthentication;
                use bevy_renet::renet::ConnectionConfig;
                std::thread::sleep(std::time::Duration::from_millis(3));
                let socket = UdpSocket::bind(SocketAddr::new(self.ip, 0)).unwrap();
                let now = std::time::SystemTime::now().duration_since(std::time::SystemTime::UNIX_EPOCH).unwrap();
                let client_id = now.as_millis() as u64;
                let auth = ClientAuthentication::Unsecure { client_id, server_addr: SocketAddr::new(self.ip, self.port), protocol_id: 1, user_data: None };
                let world = self.peers[p].app.world_mut();
                world.insert_resource(RenetClient::new(ConnectionConfig::default()));
                world.insert_resource(NetcodeClientTransport::new(now, auth, socket).unwrap());
                if let Some(old) = self.peers[p].client_id {
                    self.peers[p].old_client_ids.push(old);
                }
                self.peers[p].client_id = Some(client_id);
            }
            "removetransports" => {
                let world = self.peers[p].app.world_mut();
                world.remove_resource::<NetcodeServerTransport>();
                world.remove_resource::<NetcodeClientTransport>();
            }
            "kick" => {
                // the host drops the connection of peer q (RenetServer::disconnect): q's renet client learns it
                // from the network, its transport resource stays in its world
                let q: usize = w[1].parse().unwrap();
                let cid = self.peers[q].client_id;
                let world = self.peers[p].app.world_mut();
                if let (Some(cid), Some(mut server)) = (cid, world.get_resource_mut::<RenetServer>()) {
                    server.disconnect(bevy_renet::renet::ClientId::from_raw(cid));
                }
            }
            other => panic!("unknown op {}", other),
        }
    }

    // ---- one frame ---------------------------------------------------------------------------------
    pub fn frame(&mut self, p: usize) {
        if self.peers[p].panicked {
            return;
        }
        self.tap.lock().unwrap().clear();
        self.peers[p].app.world_mut().resource_mut::<AssetLog>().0.clear();
        self.peers[p].app.world_mut().resource_mut::<ConnLog>().0.clear();
        let fin_before = self.finished_count(p);
        let r = {
            let app = &mut self.peers[p].app;
            catch_unwind(AssertUnwindSafe(|| app.update()))
        };
        writeln!(self.out, "FRAME {}", p).unwrap();
        if let Some(order) = schedule_order(&self.peers[p].app) {
            if order != self.peers[p].last_order {
                writeln!(self.out, "ORD {} {}", p, order.join(" ")).unwrap();
                self.peers[p].last_order = order;
            }
        }
        {
            let world = self.peers[p].app.world();
            let reg = world.resource::<AppTypeRegistry>().clone();
            let reg = reg.read();
            let have: Vec<u32> = (0..=9).filter(|t| reg.get_with_type_path(&type_path_of(*t)).is_some()).collect();
            if have != self.peers[p].last_registry {
                writeln!(self.out, "REGISTRY {} {}", p, have.iter().map(|t| t.to_string()).collect::<Vec<_>>().join(",")).unwrap();
                self.peers[p].last_registry = have;
            }
        }
        // learn uuids of script entities
        self.learn_uuids();
        // a promotion hand-over creates new transports with new client ids
        {
            let id = self.peers[p].app.world().get_resource::<NetcodeClientTransport>().map(|t| t.client_id().raw());
            if id.is_some() && id != self.peers[p].client_id {
                if let Some(old) = self.peers[p].client_id {
                    self.peers[p].old_client_ids.push(old);
                }
                self.peers[p].client_id = id;
            }
        }
        // connection oracle
        {
            let world = self.peers[p].app.world();
            let mut clients: Vec<u32> = vec![];
            for c in world.resource::<ConnLog>().1.iter() {
                if let Some(q) = self.peer_of_client(*c) {
                    clients.push(q as u32);
                }
            }
            clients.sort();
            let status = match world.get_resource::<RenetClient>() {
                Some(c) if c.is_connected() => "connected",
                Some(c) if c.is_connecting() => "connecting",
                Some(_) => "disconnected",
                None => "none",
            };
            let has_srv = world.contains_resource::<NetcodeServerTransport>();
            let has_cli = world.contains_resource::<NetcodeClientTransport>();
            let list = clients.iter().map(|c| c.to_string()).collect::<Vec<_>>().join(",");
            let evs: Vec<String> = world
                .resource::<ConnLog>()
                .0
                .iter()
                .map(|(c, id)| format!("{}{}", if *c { '+' } else { '-' }, self.peer_of_client(*id).map(|q| q.to_string()).unwrap_or("?".into())))
                .collect();
            writeln!(
                self.out,
                "NET {} clients={} status={} srvt={} clit={} events={} cid={}",
                p,
                if list.is_empty() { "-".into() } else { list },
                status,
                has_srv as u8,
                has_cli as u8,
                if evs.is_empty() { "-".to_string() } else { evs.join(",") },
                world.get_resource::<NetcodeClientTransport>().map(|t| t.client_id().raw().to_string()).unwrap_or("-".into())
            )
            .unwrap();
            self.peers[p].prev_clients = clients;
        }
        // downloads applied by the process_* systems in this frame = asset events of the URL classes
        // that were not caused by a local insertion
        {
            let log: Vec<(u8, Uuid)> = self.peers[p].app.world().resource::<AssetLog>().0.clone();
            for (k, u) in log {
                if let Some(pos) = self.peers[p].local_asset_ops.iter().position(|x| *x == (k, u)) {
                    self.peers[p].local_asset_ops.remove(pos);
                    continue;
                }
                if k == 0 {
                    continue;
                }
                let world = self.peers[p].app.world();
                let content = match k {
                    1 => world.resource::<Assets<Mesh>>().get(u).map(mesh_digest),
                    2 => world.resource::<Assets<Image>>().get(u).map(image_digest),
                    _ => world.resource::<Assets<AudioSource>>().get(u).map(audio_digest),
                }
                .unwrap_or("gone".into());
                let a = asset_handle(&u).map(|a| a.to_string()).unwrap_or("?".into());
                writeln!(self.out, "DL {} {} {} {}", p, k, a, content).unwrap();
            }
        }
        let msgs: Vec<_> = self.tap.lock().unwrap().drain(..).collect();
        self.received_in_round += msgs.len();
        for (_is_server, from, m) in &msgs {
            let from = match from {
                Some(id) => self.peer_of_client(*id).map(|q| q.to_string()).unwrap_or("?".into()),
                None => "h".to_string(),
            };
            let c = self.canon(p, m);
            writeln!(self.out, "RCV {} {} {}", p, from, c).unwrap();
        }
        if let Err(e) = r {
            let msg = e.downcast_ref::<String>().cloned().or_else(|| e.downcast_ref::<&str>().map(|s| s.to_string())).unwrap_or_default();
            let first = msg.lines().next().unwrap_or("").chars().take(160).collect::<String>();
            writeln!(self.out, "PANIC {} {}", p, first).unwrap();
            self.peers[p].panicked = true;
            writeln!(self.out, "END").unwrap();
            return;
        }
        let fin_after = self.finished_count(p);
        let _ = fin_before;
        self.observe(p, fin_after);
        writeln!(self.out, "END").unwrap();
    }

    fn finished_count(&self, p: usize) -> usize {
        // total InitialSyncFinished events ever sent on this App
        self.peers[p].app.world().get_resource::<FinCount>().map(|c| c.0).unwrap_or(0)
    }

    fn learn_uuids(&mut self) {
        let mut found = vec![];
        for (h, (p, e)) in &self.script {
            if self.uuid_of.contains_key(h) {
                continue;
            }
            if let Some(er) = self.peers[*p].app.world().get_entity(*e) {
                if let Some(s) = er.get::<SyncEntity>() {
                    found.push((*h, s.uuid));
                }
            }
        }
        // an entity may be gone again before it could be observed: the tracker still knows its uuid
        for (pi, peer) in self.peers.iter().enumerate() {
            if let Some(t) = verif::tracker_stats(peer.app.world()) {
                for (e, u) in &t.entity_to_uuid {
                    for (h, (owner, se)) in &self.script {
                        if *owner == pi && se == e && !self.uuid_of.contains_key(h) && !self.handle_of.contains_key(u) {
                            found.push((*h, *u));
                        }
                    }
                }
            }
        }
        for (h, u) in found {
            if self.uuid_of.contains_key(&h) || self.handle_of.contains_key(&u) {
                continue;
            }
            self.uuid_of.insert(h, u);
            self.handle_of.insert(u, h);
        }
    }

    fn ident(&self, p: usize, e: Entity) -> String {
        let world = self.peers[p].app.world();
        for (h, (owner, se)) in &self.script {
            if *owner == p && *se == e {
                return format!("h{}", h);
            }
        }
        if let Some(er) = world.get_entity(e) {
            if let Some(s) = er.get::<SyncEntity>() {
                return format!("r{}", self.h(&s.uuid));
            }
            return "anon".to_string();
        }
        "dead".to_string()
    }

    fn observe(&mut self, p: usize, fin: usize) {
        let world = self.peers[p].app.world();
        let ss = match world.get_resource::<State<ServerState>>().map(|s| s.get().clone()) {
            Some(ServerState::Connected) => "C",
            _ => "D",
        };
        let cs = match world.get_resource::<State<ClientState>>().map(|s| s.get().clone()) {
            Some(ClientState::Connected) => "C",
            Some(ClientState::Connecting) => "G",
            Some(ClientState::ConnectedInitialSync) => "I",
            _ => "D",
        };
        let mut lines = vec![format!("ST {} server={} client={} fin={}", p, ss, cs, fin)];
        if let Some(t) = verif::tracker_stats(world) {
            let ctok: Vec<String> = {
                let mut v: Vec<String> = t.component_tokens.iter().map(|(u, n)| format!("{}:{}", self.h(u), tyid_of_path(n).map(|t| t.to_string()).unwrap_or("?".into()))).collect();
                v.sort();
                v
            };
            let u2e: Vec<String> = {
                let mut v: Vec<String> = t.uuid_to_entity.iter().map(|(u, _)| self.h(u)).collect();
                v.sort();
                v
            };
            lines.push(format!(
                "TRK {} u2e={} e2u={} queue={} ctok={} htok={} ptok={} promo={}",
                p,
                if u2e.is_empty() { "-".to_string() } else { u2e.join(",") },
                t.entity_to_uuid.len(),
                t.queue.len(),
                if ctok.is_empty() { "-".to_string() } else { ctok.join(",") },
                t.handle_tokens.len(),
                t.parent_tokens.len(),
                t.host_promotion_in_progress as u8
            ));
        }
        // world projection: every entity that is a script entity of this peer or carries SyncEntity / SyncMark
        let mut ents: Vec<Entity> = vec![];
        for (_, (owner, e)) in &self.script {
            if *owner == p && world.get_entity(*e).is_some() {
                ents.push(*e);
            }
        }
        for er in world.iter_entities() {
            if (er.contains::<SyncEntity>() || er.contains::<SyncMark>()) && !ents.contains(&er.id()) {
                ents.push(er.id());
            }
        }
        let mut elines = vec![];
        for e in ents {
            let er = world.entity(e);
            let id = self.ident(p, e);
            let sync = er.get::<SyncEntity>().map(|s| self.h(&s.uuid)).unwrap_or("-".into());
            let parent = er.get::<Parent>().map(|q| self.ident(p, q.get())).unwrap_or("-".into());
            let children = er
                .get::<Children>()
                .map(|c| {
                    let mut v = c.iter().map(|x| self.ident(p, *x)).collect::<Vec<_>>();
                    v.sort();
                    v.join(",")
                })
                .unwrap_or("-".into());
            let mut comps = read_values(&er);
            if let Some(sm) = er.get::<SkinnedMesh>() {
                let joints: Vec<String> = sm.joints.iter().map(|j| self.ident(p, *j)).collect();
                let poses = world.resource::<Assets<SkinnedMeshInverseBindposes>>().get(&sm.inverse_bindposes).map(|p| p.iter().map(|m| format!("{}", m.x_axis.x as u64)).collect::<Vec<_>>().join(";")).unwrap_or("missing".into());
                comps.push((T_SKIN, format!("skin[{}][{}]", joints.join(";"), poses)));
            }
            comps.sort();
            let excl: Vec<String> = (0..9).filter(|t| has_exclude(&er, *t)).map(|t| t.to_string()).collect();
            elines.push(format!(
                "E {} {} mark={} sync={} parent={} children={} excl={} comps={}",
                p,
                id,
                er.contains::<SyncMark>() as u8,
                sync,
                parent,
                if children.is_empty() { "-".to_string() } else { children },
                if excl.is_empty() { "-".to_string() } else { excl.join(",") },
                if comps.is_empty() { "-".to_string() } else { comps.iter().map(|(t, v)| format!("{}:{}", t, v)).collect::<Vec<_>>().join(",") }
            ));
        }
        elines.sort();
        lines.extend(elines);
        let mut alines = vec![];
        for (id, m) in world.resource::<Assets<StandardMaterial>>().iter() {
            if let AssetId::Uuid { uuid } = id {
                alines.push(format!("AST {} 0 {} {}", p, self.ah(&uuid), material_digest(m)));
            }
        }
        for (id, m) in world.resource::<Assets<Mesh>>().iter() {
            if let AssetId::Uuid { uuid } = id {
                alines.push(format!("AST {} 1 {} {}", p, self.ah(&uuid), mesh_digest(m)));
            }
        }
        for (id, m) in world.resource::<Assets<Image>>().iter() {
            if let AssetId::Uuid { uuid } = id {
                if asset_handle(&uuid).is_some() {
                    alines.push(format!("AST {} 2 {} {}", p, self.ah(&uuid), image_digest(m)));
                }
            }
        }
        for (id, m) in world.resource::<Assets<AudioSource>>().iter() {
            if let AssetId::Uuid { uuid } = id {
                alines.push(format!("AST {} 3 {} {}", p, self.ah(&uuid), audio_digest(m)));
            }
        }
        alines.sort();
        lines.extend(alines);
        if let Some(t) = verif::transfer_stats(world) {
            lines.push(format!("XFER {} active={} queued={} toapply={}", p, t.downloads_active, t.downloads_queued, t.meshes_to_apply + t.images_to_apply + t.audios_to_apply));
            // downloads requested and not yet applied: kind:asset:under-way
            let pend: Vec<String> = t.pending.iter().map(|(c, id, n)| format!("{}:{}:{}", c + 1, self.ah(id), n)).collect();
            // the steps the registry of pending downloads has taken since the last frame, in lock order (read in
            // the same moment as the registry itself):
            // REG p step kind asset number flag (steps: 0 request, 1 arrived (flag: dropped as outdated),
            // 2 thread over (flag: entry removed), 3 bytes taken by process_*, 4 applied (flag: entry removed))
            for (step, c, u, n, flag) in t.registry_log.iter().skip(self.peers[p].dropped_seen) {
                let a = self.ah(u);
                lines.push(format!("REG {} {} {} {} {} {}", p, step, c + 1, a, n, *flag as u8));
                // DROP = the thread of a download that was dropped on arrival is over (the moment the
                // registry forgets that request)
                if *step == 1 && *flag {
                    self.peers[p].dropped_flights.push((*c, *u, *n));
                }
                if *step == 2 {
                    if let Some(pos) = self.peers[p].dropped_flights.iter().position(|x| *x == (*c, *u, *n)) {
                        self.peers[p].dropped_flights.remove(pos);
                        lines.push(format!("DROP {} {} {}", p, c + 1, a));
                    }
                }
            }
            self.peers[p].dropped_seen = t.registry_log.len();
            lines.push(format!("PEND {} {}", p, if pend.is_empty() { "-".to_string() } else { pend.join(",") }));
        }
        for l in lines {
            writeln!(self.out, "{}", l).unwrap();
        }
    }

    /// round-robin frames until `quiet` consecutive rounds without any received message (at most `max` rounds)
    pub fn drain(&mut self, max: u32, quiet: u32) -> bool {
        let mut silent = 0;
        // a netcode handshake needs wall-clock time when a packet has to be sent again (every 250 ms): rounds
        // spent waiting for one do not count against `max`, for at most 4 s per drain
        let started = std::time::Instant::now();
        let mut used = 0;
        while used < max {
            used += 1;
            self.received_in_round = 0;
            for p in 0..self.peers.len() {
                if self.peers[p].is_setup {
                    self.frame(p);
                }
            }
            let joining = self.peers.iter().any(|p| {
                if p.panicked || !p.is_setup {
                    return false;
                }
                let w = p.app.world();
                let has_cli = w.contains_resource::<NetcodeClientTransport>();
                let connecting = w.get_resource::<RenetClient>().map(|c| c.is_connecting()).unwrap_or(false);
                let st_connected = matches!(w.get_resource::<State<ClientState>>().map(|s| s.get().clone()), Some(ClientState::Connected));
                let fin = w.get_resource::<FinCount>().map(|c| c.0).unwrap_or(0);
                // a handshake or an initial sync still under way
                has_cli && ((connecting && !st_connected) || (st_connected && fin == 0 && w.get_resource::<RenetClient>().map(|c| c.is_connected()).unwrap_or(false)))
            });
            // bytes handed to renet and not yet acknowledged (large messages need wall-clock time)
            let current_ids: Vec<u64> = self
                .peers
                .iter()
                .filter(|p| p.app.world().contains_resource::<NetcodeClientTransport>())
                .filter_map(|p| p.client_id)
                .collect();
            let pending_net = self.peers.iter().any(|p| {
                if p.panicked || !p.is_setup {
                    return false;
                }
                let w = p.app.world();
                const FULL: usize = 5 * 1024 * 1024;
                let cli = w.contains_resource::<NetcodeClientTransport>()
                    && w.get_resource::<RenetClient>().map(|c| c.is_connected() && c.channel_available_memory(bevy_renet::renet::DefaultChannel::ReliableOrdered) < FULL).unwrap_or(false);
                let srv = w.contains_resource::<NetcodeServerTransport>()
                    && w.get_resource::<RenetServer>()
                        .map(|s| {
                            s.clients_id()
                                .iter()
                                // connections of peers that left (until renet times them out) never acknowledge
                                .filter(|c| current_ids.contains(&c.raw()))
                                .any(|c| s.channel_available_memory(*c, bevy_renet::renet::DefaultChannel::ReliableOrdered) < FULL)
                        })
                        .unwrap_or(false);
                cli || srv
            });
            if pending_net {
                std::thread::sleep(std::time::Duration::from_millis(4));
            }
            if joining && started.elapsed() < std::time::Duration::from_secs(4) {
                used -= 1;
                std::thread::sleep(std::time::Duration::from_millis(4));
            }
            let busy = joining
                || pending_net
                || self.received_in_round > 0
                || self.peers.iter().any(|p| {
                    !p.panicked
                        && verif::tracker_stats(p.app.world()).map(|t| !t.queue.is_empty()).unwrap_or(false)
                        || verif::transfer_stats(p.app.world()).map(|t| t.downloads_active + t.downloads_queued + t.meshes_to_apply + t.images_to_apply + t.audios_to_apply > 0).unwrap_or(false)
                });
            if busy {
                silent = 0;
            } else {
                silent += 1;
                if silent >= quiet {
                    writeln!(self.out, "QUIESCENT").unwrap();
                    return true;
                }
            }
            std::thread::sleep(std::time::Duration::from_millis(1));
        }
        writeln!(self.out, "NOTQUIESCENT").unwrap();
        false
    }
}

/// Runs a scenario file; returns the trace.
pub fn run_scenario(text: &str) -> String {
    let mut lines = text.lines().map(|l| l.trim()).filter(|l| !l.is_empty() && !l.starts_with('#'));
    let head: Vec<&str> = lines.next().expect("empty scenario").split_whitespace().collect();
    assert_eq!(head[0], "PEERS");
    let n: usize = head[1].parse().unwrap();
    let v6 = head.get(2).map(|s| *s == "v6").unwrap_or(false);
    let mt = head.iter().any(|s| *s == "mt");
    let mut s = Session::new(n, v6, mt);
    writeln!(s.out, "PEERS {} {}", n, if mt { "mt" } else { "st" }).unwrap();
    // warm-up: let the engine's start-up asset events (default material / image) expire before any
    // bevy_sync reader can see them; event buffers rotate with the fixed time step (64 Hz)
    for _ in 0..3 {
        for p in 0..n {
            s.frame(p);
        }
        std::thread::sleep(std::time::Duration::from_millis(20));
    }
    for l in lines {
        let w: Vec<&str> = l.split_whitespace().collect();
        match w[0] {
            "OP" => {
                let p: usize = w[1].parse().unwrap();
                s.op(p, &w[2..]);
            }
            "FRAME" => {
                let p: usize = w[1].parse().unwrap();
                let k: usize = w.get(2).and_then(|x| x.parse().ok()).unwrap_or(1);
                for _ in 0..k {
                    s.frame(p);
                }
            }
            "ROUND" => {
                let k: usize = w.get(1).and_then(|x| x.parse().ok()).unwrap_or(1);
                for _ in 0..k {
                    for p in 0..n {
                        if s.peers[p].is_setup {
                            s.frame(p);
                        }
                    }
                }
            }
            "UNTILCONN" => {
                // rounds until the RenetClient of peer p reports connected (the handshake takes a
                // wall-clock dependent number of frames): lets a scenario place operations
                // deterministically relative to the join
                let p: usize = w[1].parse().unwrap();
                let max: u32 = w.get(2).and_then(|x| x.parse().ok()).unwrap_or(40);
                for _ in 0..max {
                    let connected = s.peers[p]
                        .app
                        .world()
                        .get_resource::<RenetClient>()
                        .map(|c| c.is_connected())
                        .unwrap_or(false);
                    if connected {
                        break;
                    }
                    for q in 0..n {
                        if s.peers[q].is_setup {
                            s.frame(q);
                        }
                    }
                }
            }
            "DRAIN" => {
                let max: u32 = w.get(1).and_then(|x| x.parse().ok()).unwrap_or(60);
                s.drain(max, 3);
            }
            "EXCLUDED_FROM_HERE" => {
                // marker for the oracle: from here on component w[2] of entity w[1] is private
                writeln!(s.out, "MARK excluded {} {}", w[1], w[2]).unwrap();
            }
            "SLEEP" => {
                let ms: u64 = w[1].parse().unwrap();
                std::thread::sleep(std::time::Duration::from_millis(ms));
            }
            other => panic!("unknown scenario line {}", other),
        }
        if s.peers.iter().any(|p| p.panicked) {
            break;
        }
    }
    writeln!(s.out, "DONE").unwrap();
    s.out
}
