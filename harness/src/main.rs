mod codec;
mod http;
mod proto;
mod util;

fn arg<T: std::str::FromStr>(args: &[String], i: usize, default: T) -> T {
    args.get(i).and_then(|s| s.parse().ok()).unwrap_or(default)
}

fn main() {
    let args: Vec<String> = std::env::args().collect();
    let cmd = args.get(1).map(|s| s.as_str()).unwrap_or("");
    match cmd {
        "http" => {
            // bsh http <seed> <ops> <ipv6 0|1>
            let seed: u64 = arg(&args, 2, 1);
            let n: usize = arg(&args, 3, 40);
            let v6: u8 = arg(&args, 4, 0);
            print!("{}", http::run(seed, n, v6 == 1));
            // the endpoint's acceptor thread never exits: leave the process hard
            std::process::exit(0);
        }
        "http-stall" => {
            // bsh http-stall <stalled readers> <ipv6 0|1>
            let k: usize = arg(&args, 2, 1);
            let v6: u8 = arg(&args, 3, 0);
            print!("{}", http::stall(k, v6 == 1));
            std::process::exit(0);
        }
        "codec-mesh" => print!("{}", codec::mesh_cases(arg(&args, 2, 1), arg(&args, 3, 100), arg(&args, 4, 2000))),
        "codec-image" => print!("{}", codec::image_cases(arg(&args, 2, 1), arg(&args, 3, 100), arg(&args, 4, 16))),
        "codec-msg" => print!("{}", codec::msg_cases(arg(&args, 2, 1), arg(&args, 3, 100))),
        "codec-reflect" => print!("{}", codec::reflect_cases(arg(&args, 2, 1), arg(&args, 3, 100))),
        "codec-formats" => print!("{}", codec::format_table()),
        "proto" => {
            // bsh proto <scenario file>
            let text = std::fs::read_to_string(&args[2]).expect("scenario file");
            let prev = std::panic::take_hook();
            std::panic::set_hook(Box::new(move |info| {
                if std::env::var("BSH_PANIC_TRACE").is_ok() {
                    prev(info);
                }
            }));
            let out = proto::run_scenario(&text);
            print!("{}", out);
            use std::io::Write;
            std::io::stdout().flush().unwrap();
            std::process::exit(0);
        }
        _ => {
            eprintln!("usage: bsh http|codec-*|proto ...");
            std::process::exit(2);
        }
    }
}
