//! TEMPORARY stub (replaced by the full codec case generator).
use crate::util::Rng;
use bevy::prelude::*;
use bevy::render::{mesh::PrimitiveTopology, render_asset::RenderAssetUsages};

pub fn random_mesh(rng: &mut Rng, max_vertices: usize) -> Mesh {
    let n = rng.below(max_vertices as u64 + 1) as usize;
    let mut mesh = Mesh::new(PrimitiveTopology::TriangleList, RenderAssetUsages::MAIN_WORLD | RenderAssetUsages::RENDER_WORLD);
    let pos: Vec<[f32; 3]> = (0..n).map(|_| [f32::from_bits(rng.next_u64() as u32), 0.0, 1.0]).collect();
    mesh.insert_attribute(Mesh::ATTRIBUTE_POSITION, pos);
    mesh
}

pub fn random_image(_rng: &mut Rng, _max_extent: u32) -> Image {
    Image::default()
}
