//! Codec cases: drives the REAL `mesh_to_bin`/`bin_to_mesh`, `image_to_bin`/`bin_to_image`,
//! `Message` bincode and `reflect_to_bin`/`bin_to_reflect` of bevy_sync on generated inputs and
//! prints the text lines the formal model replays. All randomness of one call derives from one
//! `Rng::new(seed)`.
#![allow(dead_code)]

use std::any::TypeId;
use std::fmt::Write as _;
use std::net::{IpAddr, Ipv4Addr, Ipv6Addr};

use bevy::asset::{AssetId, AssetIndex, Assets, Handle};
use bevy::pbr::{OpaqueRendererMethod, ParallaxMappingMethod, UvChannel};
use bevy::prelude::*;
use bevy::reflect::serde::SerializationData;
use bevy::reflect::{
    FromReflect, ReflectFromReflect, ReflectRef, ReflectSerialize, TypeInfo, TypeRegistry,
    VariantInfo, VariantType,
};
use bevy::render::mesh::{Indices, MeshVertexAttribute, VertexAttributeValues};
use bevy::render::render_asset::RenderAssetUsages;
use bevy::render::render_resource::{Extent3d, PrimitiveTopology, TextureDimension};
use bevy::render::texture::TextureFormatPixelInfo;
use bevy_sync::verif::{
    bin_to_image, bin_to_mesh, bin_to_reflect, image_to_bin, mesh_to_bin, reflect_to_bin, VMessage,
};
use uuid::Uuid;
use wgpu_types::{AstcBlock, AstcChannel, TextureFormat};

use crate::util::{hex, payload, Rng};

// ---------------------------------------------------------------------------------------------
// shared generators
// ---------------------------------------------------------------------------------------------

/// Fast hex with the same output as `util::hex` (`-` for the empty slice).
fn hx(b: &[u8]) -> String {
    if b.is_empty() {
        return hex(b);
    }
    const D: &[u8; 16] = b"0123456789abcdef";
    let mut s = Vec::with_capacity(b.len() * 2);
    for x in b {
        s.push(D[(x >> 4) as usize]);
        s.push(D[(x & 15) as usize]);
    }
    String::from_utf8(s).unwrap()
}

const F32_NANS: [u32; 5] = [0x7fc0_0000, 0x7fc0_0001, 0xffc1_2345, 0x7f80_0001, 0xffff_ffff];
const F64_NANS: [u64; 5] = [
    0x7ff8_0000_0000_0000,
    0x7ff8_0000_0000_0001,
    0xfff8_0000_0001_2345,
    0x7ff0_0000_0000_0001,
    0xffff_ffff_ffff_ffff,
];

/// One f32 bit pattern from the full domain.
fn f32_bits(rng: &mut Rng) -> u32 {
    match rng.below(12) {
        0 | 1 | 2 => rng.next_u64() as u32,
        3 => 0x0000_0000,
        4 => 0x8000_0000,
        5 => 0x7f80_0000,
        6 => 0xff80_0000,
        7 => *rng.pick(&F32_NANS),
        8 => (rng.range(1, 0x007f_ffff) as u32) | ((rng.below(2) as u32) << 31), // subnormal
        9 => ((rng.below(17) as i32 - 8) as f32).to_bits(),
        10 => (rng.below(1000) as f32 / 8.0).to_bits(),
        _ => *rng.pick(&[
            0x3f80_0000u32, // 1.0
            0xbf80_0000,    // -1.0
            0x7f7f_ffff,    // MAX
            0x0080_0000,    // MIN_POSITIVE
            0x0000_0001,    // smallest subnormal
            0x807f_ffff,    // largest negative subnormal
        ]),
    }
}

fn f64_bits(rng: &mut Rng) -> u64 {
    match rng.below(10) {
        0 | 1 | 2 => rng.next_u64(),
        3 => 0,
        4 => 0x8000_0000_0000_0000,
        5 => 0x7ff0_0000_0000_0000,
        6 => 0xfff0_0000_0000_0000,
        7 => *rng.pick(&F64_NANS),
        8 => rng.range(1, 0x000f_ffff_ffff_ffff) | (rng.below(2) << 63), // subnormal
        _ => ((rng.below(17) as i64 - 8) as f64).to_bits(),
    }
}

fn gen_f32(rng: &mut Rng) -> f32 {
    f32::from_bits(f32_bits(rng))
}

fn gen_f64(rng: &mut Rng) -> f64 {
    f64::from_bits(f64_bits(rng))
}

/// An integer bit pattern of `bits` bits from the full domain (0, ±1, signed/unsigned extremes,
/// random), returned zero-extended; cast with `as` to the wanted type.
fn int_bits(rng: &mut Rng, bits: u32) -> u128 {
    let mask: u128 = if bits == 128 { u128::MAX } else { (1u128 << bits) - 1 };
    let v: u128 = match rng.below(9) {
        0 => 0,
        1 => 1,
        2 => mask,                    // -1 / unsigned max
        3 => 1u128 << (bits - 1),     // signed min
        4 => (1u128 << (bits - 1)) - 1, // signed max
        5 => mask - 1,                // -2
        6 => rng.below(256) as u128,
        _ => ((rng.next_u64() as u128) << 64) | rng.next_u64() as u128,
    };
    v & mask
}

const NON_ASCII: [&str; 8] = [
    "μορφή",
    "形",
    "é",
    "naïve café",
    "€uro",
    "😀😀",
    "\u{10FFFF}",
    "a\0b",
];

fn ascii_string(rng: &mut Rng, n: usize) -> String {
    const A: &[u8] = b"abcdefghijklmnopqrstuvwxyzABCDEFGHIJKLMNOPQRSTUVWXYZ0123456789_-./: ";
    (0..n).map(|_| *rng.pick(A) as char).collect()
}

fn gen_char(rng: &mut Rng) -> char {
    match rng.below(3) {
        0 | 1 => *rng.pick(&['a', 'é', '€', '😀', '\u{10FFFF}', '\0', '\u{7f}', '\u{80}', '\u{7ff}', '\u{800}', '\u{ffff}', '\u{10000}', '\u{d7ff}', '\u{e000}']),
        _ => loop {
            if let Some(c) = char::from_u32(rng.below(0x11_0000) as u32) {
                break c;
            }
        },
    }
}

/// Strings: empty, short ASCII, long (`long` bytes), non-ASCII, random scalars.
fn gen_string(rng: &mut Rng, long: usize) -> String {
    match rng.below(8) {
        0 => String::new(),
        1 | 2 | 3 => {
            let n = rng.range(1, 24) as usize;
            ascii_string(rng, n)
        }
        4 => {
            if rng.chance(1, 2) {
                ascii_string(rng, long)
            } else {
                // long and compressible
                let p = rng.range(1, 9) as usize;
                let pat = ascii_string(rng, p);
                pat.chars().cycle().take(long).collect()
            }
        }
        5 | 6 => rng.pick(&NON_ASCII).to_string(),
        _ => {
            let n = rng.range(1, 12);
            (0..n).map(|_| gen_char(rng)).collect()
        }
    }
}

fn gen_uuid(rng: &mut Rng) -> Uuid {
    match rng.below(8) {
        0 => Uuid::from_bytes([0u8; 16]),
        1 => Uuid::from_bytes([0xffu8; 16]),
        _ => {
            let b = rng.bytes(16);
            let mut a = [0u8; 16];
            a.copy_from_slice(&b);
            Uuid::from_bytes(a)
        }
    }
}

/// Small most of the time, log-uniform up to `max` otherwise (keeps output sizes sensible).
fn gen_count(rng: &mut Rng, max: usize) -> usize {
    if max == 0 {
        return 0;
    }
    let n = match rng.below(10) {
        0 => 0,
        1 => 1,
        2 => 2,
        3 => 3,
        4 | 5 | 6 => rng.range(4, 32) as usize,
        7 if rng.chance(1, 3) => max,
        _ => {
            let top = 64 - (max as u64).leading_zeros() as u64; // bits of max
            let b = rng.range(0, top);
            rng.below(1u64 << b.min(63)) as usize + (1usize << b.min(62)) / 2
        }
    };
    n.min(max)
}

// ---------------------------------------------------------------------------------------------
// meshes
// ---------------------------------------------------------------------------------------------

fn attr(k: usize) -> MeshVertexAttribute {
    match k {
        0 => Mesh::ATTRIBUTE_POSITION,
        1 => Mesh::ATTRIBUTE_NORMAL,
        2 => Mesh::ATTRIBUTE_UV_0,
        3 => Mesh::ATTRIBUTE_UV_1,
        4 => Mesh::ATTRIBUTE_TANGENT,
        5 => Mesh::ATTRIBUTE_COLOR,
        6 => Mesh::ATTRIBUTE_JOINT_WEIGHT,
        7 => Mesh::ATTRIBUTE_JOINT_INDEX,
        _ => unreachable!(),
    }
}

const ATTR_KEYS: [&str; 8] = ["pos", "nor", "uv0", "uv1", "tan", "col", "jw", "ji"];
/// components per vertex
const ATTR_WIDTH: [usize; 8] = [3, 3, 2, 2, 4, 4, 4, 4];

/// `n` 32-bit words (f32 bit patterns): independent, constant, periodic, or a structured byte
/// stream (matches of length 4, 5, 18..20, 273..275, 600 at arbitrary byte offsets).
fn gen_words(rng: &mut Rng, n: usize) -> Vec<u32> {
    match rng.below(6) {
        0 | 1 => (0..n).map(|_| f32_bits(rng)).collect(),
        2 => vec![f32_bits(rng); n],
        3 => {
            let p = *rng.pick(&[1usize, 2, 3, 4, 5, 6, 7, 12, 19, 20, 68, 69, 137]);
            let pat: Vec<u32> = (0..p).map(|_| f32_bits(rng)).collect();
            (0..n).map(|i| pat[i % p]).collect()
        }
        4 => {
            // mostly periodic with sparse defects: bounded match lengths
            let p = *rng.pick(&[1usize, 2, 3, 4, 5, 7]);
            let pat: Vec<u32> = (0..p).map(|_| f32_bits(rng)).collect();
            let mut v: Vec<u32> = (0..n).map(|i| pat[i % p]).collect();
            let gap = *rng.pick(&[2usize, 5, 6, 19, 20, 69, 70, 300]);
            let mut i = rng.below(gap as u64) as usize;
            while i < n {
                v[i] = rng.next_u64() as u32;
                i += gap;
            }
            v
        }
        _ => {
            let b = payload(rng, n * 4);
            b.chunks_exact(4).map(|c| u32::from_le_bytes([c[0], c[1], c[2], c[3]])).collect()
        }
    }
}

fn gen_halfwords(rng: &mut Rng, n: usize) -> Vec<u16> {
    match rng.below(4) {
        0 => (0..n).map(|_| int_bits(rng, 16) as u16).collect(),
        1 => vec![rng.next_u64() as u16; n],
        2 => (0..n).map(|i| (i / 4) as u16).collect(),
        _ => {
            let b = payload(rng, n * 2);
            b.chunks_exact(2).map(|c| u16::from_le_bytes([c[0], c[1]])).collect()
        }
    }
}

fn gen_attr_values(rng: &mut Rng, k: usize, n: usize) -> VertexAttributeValues {
    let w = ATTR_WIDTH[k];
    if k == 7 {
        let h = gen_halfwords(rng, n * 4);
        return VertexAttributeValues::Uint16x4(
            h.chunks_exact(4).map(|c| [c[0], c[1], c[2], c[3]]).collect(),
        );
    }
    let f: Vec<f32> = gen_words(rng, n * w).into_iter().map(f32::from_bits).collect();
    match w {
        2 => VertexAttributeValues::Float32x2(f.chunks_exact(2).map(|c| [c[0], c[1]]).collect()),
        3 => VertexAttributeValues::Float32x3(f.chunks_exact(3).map(|c| [c[0], c[1], c[2]]).collect()),
        _ => VertexAttributeValues::Float32x4(
            f.chunks_exact(4).map(|c| [c[0], c[1], c[2], c[3]]).collect(),
        ),
    }
}

fn gen_morph_handle(rng: &mut Rng) -> Option<Handle<Image>> {
    match rng.below(100) {
        0..=2 => {
            let mut assets = Assets::<Image>::default();
            Some(assets.add(Image::default()))
        }
        3..=34 => None,
        35..=67 => Some(Handle::Weak(AssetId::Uuid { uuid: gen_uuid(rng) })),
        _ => {
            let bits = match rng.below(5) {
                0 => 0,
                1 => u64::MAX,
                2 => rng.below(100),
                3 => rng.below(100) << 32,
                _ => rng.next_u64(),
            };
            Some(Handle::Weak(AssetId::Index {
                index: AssetIndex::from_bits(bits),
                marker: std::marker::PhantomData,
            }))
        }
    }
}

fn gen_names(rng: &mut Rng) -> Option<Vec<String>> {
    match rng.below(10) {
        0..=2 => None,
        3 | 4 => Some(vec![]),
        _ => {
            let n = rng.range(1, 6);
            Some(
                (0..n)
                    .map(|_| match rng.below(6) {
                        0 => String::new(),
                        1 => ascii_string(rng, 300),
                        2 => rng.pick(&NON_ASCII).to_string(),
                        _ => gen_string(rng, 300),
                    })
                    .collect(),
            )
        }
    }
}

/// a mesh whose buffers are large and constant (zero-initialised / flat geometry): compresses by a
/// factor of several hundred
fn constant_mesh(rng: &mut Rng, max_vertices: usize) -> Mesh {
    let topo = if rng.chance(1, 2) { PrimitiveTopology::PointList } else { PrimitiveTopology::TriangleList };
    let mut mesh = Mesh::new(topo, RenderAssetUsages::MAIN_WORLD | RenderAssetUsages::RENDER_WORLD);
    let n = max_vertices / 2 + rng.below(max_vertices as u64 / 2 + 1) as usize;
    let zero = rng.chance(1, 2);
    for k in 0..7 {
        if k == 0 || rng.chance(1, 3) {
            let w = ATTR_WIDTH[k];
            let v = if zero { 0.0f32 } else { f32::from_bits(f32_bits(rng)) };
            let f = vec![v; n * w];
            let values = match w {
                2 => VertexAttributeValues::Float32x2(f.chunks_exact(2).map(|c| [c[0], c[1]]).collect()),
                3 => VertexAttributeValues::Float32x3(f.chunks_exact(3).map(|c| [c[0], c[1], c[2]]).collect()),
                _ => VertexAttributeValues::Float32x4(f.chunks_exact(4).map(|c| [c[0], c[1], c[2], c[3]]).collect()),
            };
            mesh.insert_attribute(attr(k), values);
        }
    }
    if rng.chance(1, 3) {
        mesh.insert_indices(Indices::U32(vec![0; 3 * (n / 3)]));
    }
    mesh
}

pub fn random_mesh(rng: &mut Rng, max_vertices: usize) -> Mesh {
    if max_vertices >= 1000 && rng.chance(1, 12) {
        return constant_mesh(rng, max_vertices);
    }
    let topo = match rng.below(5) {
        0 => PrimitiveTopology::PointList,
        1 => PrimitiveTopology::LineList,
        2 => PrimitiveTopology::LineStrip,
        3 => PrimitiveTopology::TriangleList,
        _ => PrimitiveTopology::TriangleStrip,
    };
    let mut mesh = Mesh::new(topo, RenderAssetUsages::MAIN_WORLD | RenderAssetUsages::RENDER_WORLD);
    let n = gen_count(rng, max_vertices);
    // which attributes: none / all / each with p = 0.6
    let mode = rng.below(12);
    for k in 0..8 {
        let present = match mode {
            0 => false,
            1 | 2 => true,
            _ => rng.chance(3, 5),
        };
        if !present {
            continue;
        }
        // Bevy 0.14 does not force equal lengths
        let nk = if rng.chance(3, 4) { n } else { gen_count(rng, max_vertices) };
        let values = gen_attr_values(rng, k, nk);
        mesh.insert_attribute(attr(k), values);
    }
    match rng.below(6) {
        0 | 1 => {}
        kind => {
            let cnt = match rng.below(4) {
                0 => 0,
                1 => 3 * n,
                _ => rng.below(3 * n as u64 + 1) as usize,
            };
            let seq = rng.chance(1, 2);
            let m = if rng.chance(1, 4) || n == 0 { u64::MAX } else { n as u64 };
            let vals: Vec<u64> = (0..cnt)
                .map(|i| if seq { i as u64 } else if m == u64::MAX { rng.next_u64() } else { rng.below(m) })
                .collect();
            if kind <= 3 {
                mesh.insert_indices(Indices::U16(vals.iter().map(|v| *v as u16).collect()));
            } else {
                mesh.insert_indices(Indices::U32(vals.iter().map(|v| *v as u32).collect()));
            }
        }
    }
    if let Some(h) = gen_morph_handle(rng) {
        mesh.set_morph_targets(h);
    }
    if let Some(names) = gen_names(rng) {
        mesh.set_morph_target_names(names);
    }
    mesh
}

fn vav_name(v: &VertexAttributeValues) -> &'static str {
    use VertexAttributeValues::*;
    match v {
        Float32(_) => "Float32",
        Sint32(_) => "Sint32",
        Uint32(_) => "Uint32",
        Float32x2(_) => "Float32x2",
        Sint32x2(_) => "Sint32x2",
        Uint32x2(_) => "Uint32x2",
        Float32x3(_) => "Float32x3",
        Sint32x3(_) => "Sint32x3",
        Uint32x3(_) => "Uint32x3",
        Float32x4(_) => "Float32x4",
        Sint32x4(_) => "Sint32x4",
        Uint32x4(_) => "Uint32x4",
        Sint16x2(_) => "Sint16x2",
        Snorm16x2(_) => "Snorm16x2",
        Uint16x2(_) => "Uint16x2",
        Unorm16x2(_) => "Unorm16x2",
        Sint16x4(_) => "Sint16x4",
        Snorm16x4(_) => "Snorm16x4",
        Uint16x4(_) => "Uint16x4",
        Unorm16x4(_) => "Unorm16x4",
        Sint8x2(_) => "Sint8x2",
        Snorm8x2(_) => "Snorm8x2",
        Uint8x2(_) => "Uint8x2",
        Unorm8x2(_) => "Unorm8x2",
        Sint8x4(_) => "Sint8x4",
        Snorm8x4(_) => "Snorm8x4",
        Uint8x4(_) => "Uint8x4",
        Unorm8x4(_) => "Unorm8x4",
    }
}

/// The morph-targets handle (no public getter): via reflection, as `/repo`'s
/// `extract_morph_targets` does.
fn morph_of(mesh: &Mesh) -> &Option<Handle<Image>> {
    (mesh as &dyn Struct)
        .field("morph_targets")
        .expect("Mesh.morph_targets is reflected")
        .downcast_ref::<Option<Handle<Image>>>()
        .expect("Mesh.morph_targets: Option<Handle<Image>>")
}

fn topo_num(t: PrimitiveTopology) -> u8 {
    match t {
        PrimitiveTopology::PointList => 0,
        PrimitiveTopology::LineList => 1,
        PrimitiveTopology::LineStrip => 2,
        PrimitiveTopology::TriangleList => 3,
        PrimitiveTopology::TriangleStrip => 4,
    }
}

/// `topo=.. pos=.. ... names=..` (the part after `MESH <i> ` / `MESHDEC <i> `).
pub fn mesh_fields(mesh: &Mesh) -> String {
    let mut s = String::new();
    let _ = write!(s, "topo={}", topo_num(mesh.primitive_topology()));
    for k in 0..8 {
        match mesh.attribute(attr(k)) {
            None => {
                let _ = write!(s, " {}=~", ATTR_KEYS[k]);
            }
            Some(v) => {
                let _ = write!(s, " {}={}:{}", ATTR_KEYS[k], vav_name(v), hx(v.get_bytes()));
            }
        }
    }
    match mesh.indices() {
        None => s.push_str(" idx=~"),
        Some(Indices::U16(v)) => {
            let b: Vec<u8> = v.iter().flat_map(|x| x.to_le_bytes()).collect();
            let _ = write!(s, " idx=U16:{}", hx(&b));
        }
        Some(Indices::U32(v)) => {
            let b: Vec<u8> = v.iter().flat_map(|x| x.to_le_bytes()).collect();
            let _ = write!(s, " idx=U32:{}", hx(&b));
        }
    }
    match morph_of(mesh) {
        None => s.push_str(" morph=~"),
        Some(Handle::Strong(_)) => s.push_str(" morph=S"),
        Some(Handle::Weak(AssetId::Uuid { uuid })) => {
            let _ = write!(s, " morph=W:{}", hx(uuid.as_bytes()));
        }
        Some(Handle::Weak(AssetId::Index { index, .. })) => {
            let _ = write!(s, " morph=I:{}", index.to_bits());
        }
    }
    match mesh.morph_target_names() {
        None => s.push_str(" names=~"),
        Some(names) => {
            let parts: Vec<String> = names.iter().map(|n| hx(n.as_bytes())).collect();
            let _ = write!(s, " names=n:{}", parts.join(","));
        }
    }
    s
}

pub fn mesh_cases(seed: u64, count: usize, max_vertices: usize) -> String {
    let mut rng = Rng::new(seed);
    let mut out = String::new();
    for i in 0..count {
        let mesh = random_mesh(&mut rng, max_vertices);
        let _ = writeln!(out, "MESH {} {}", i, mesh_fields(&mesh));
        let bin = mesh_to_bin(&mesh);
        let _ = writeln!(out, "MESHBIN {} {}", i, hx(&bin));
        let dec = bin_to_mesh(&bin);
        let _ = writeln!(out, "MESHDEC {} {}", i, mesh_fields(&dec));
        // a download cut off somewhere (the transfer limit): what the real decoder does with a prefix
        if rng.chance(1, 3) && !bin.is_empty() {
            let cut = rng.below(bin.len() as u64) as usize;
            let bad = bin[..cut].to_vec();
            let _ = writeln!(out, "MESHBAD {} {}", i, if bad.is_empty() { "-".to_string() } else { hx(&bad) });
            match std::panic::catch_unwind(|| bin_to_mesh(&bad)) {
                Ok(m) => {
                    let _ = writeln!(out, "MESHBADDEC {} {}", i, mesh_fields(&m));
                }
                Err(_) => {
                    let _ = writeln!(out, "MESHBADDEC {} PANIC", i);
                }
            }
        }
    }
    out
}

// ---------------------------------------------------------------------------------------------
// images
// ---------------------------------------------------------------------------------------------

const ASTC_BLOCKS: [AstcBlock; 14] = [
    AstcBlock::B4x4,
    AstcBlock::B5x4,
    AstcBlock::B5x5,
    AstcBlock::B6x5,
    AstcBlock::B6x6,
    AstcBlock::B8x5,
    AstcBlock::B8x6,
    AstcBlock::B8x8,
    AstcBlock::B10x5,
    AstcBlock::B10x6,
    AstcBlock::B10x8,
    AstcBlock::B10x10,
    AstcBlock::B12x10,
    AstcBlock::B12x12,
];
const ASTC_CHANNELS: [AstcChannel; 3] = [AstcChannel::Unorm, AstcChannel::UnormSrgb, AstcChannel::Hdr];

/// Every `TextureFormat` variant of wgpu-types 0.20.0 except `Astc` (added per block/channel by
/// `all_formats`), in declaration order.
const PLAIN_FORMATS: [TextureFormat; 74] = [
    TextureFormat::R8Unorm,
    TextureFormat::R8Snorm,
    TextureFormat::R8Uint,
    TextureFormat::R8Sint,
    TextureFormat::R16Uint,
    TextureFormat::R16Sint,
    TextureFormat::R16Unorm,
    TextureFormat::R16Snorm,
    TextureFormat::R16Float,
    TextureFormat::Rg8Unorm,
    TextureFormat::Rg8Snorm,
    TextureFormat::Rg8Uint,
    TextureFormat::Rg8Sint,
    TextureFormat::R32Uint,
    TextureFormat::R32Sint,
    TextureFormat::R32Float,
    TextureFormat::Rg16Uint,
    TextureFormat::Rg16Sint,
    TextureFormat::Rg16Unorm,
    TextureFormat::Rg16Snorm,
    TextureFormat::Rg16Float,
    TextureFormat::Rgba8Unorm,
    TextureFormat::Rgba8UnormSrgb,
    TextureFormat::Rgba8Snorm,
    TextureFormat::Rgba8Uint,
    TextureFormat::Rgba8Sint,
    TextureFormat::Bgra8Unorm,
    TextureFormat::Bgra8UnormSrgb,
    TextureFormat::Rgb9e5Ufloat,
    TextureFormat::Rgb10a2Uint,
    TextureFormat::Rgb10a2Unorm,
    TextureFormat::Rg11b10Float,
    TextureFormat::Rg32Uint,
    TextureFormat::Rg32Sint,
    TextureFormat::Rg32Float,
    TextureFormat::Rgba16Uint,
    TextureFormat::Rgba16Sint,
    TextureFormat::Rgba16Unorm,
    TextureFormat::Rgba16Snorm,
    TextureFormat::Rgba16Float,
    TextureFormat::Rgba32Uint,
    TextureFormat::Rgba32Sint,
    TextureFormat::Rgba32Float,
    TextureFormat::Stencil8,
    TextureFormat::Depth16Unorm,
    TextureFormat::Depth24Plus,
    TextureFormat::Depth24PlusStencil8,
    TextureFormat::Depth32Float,
    TextureFormat::Depth32FloatStencil8,
    TextureFormat::NV12,
    TextureFormat::Bc1RgbaUnorm,
    TextureFormat::Bc1RgbaUnormSrgb,
    TextureFormat::Bc2RgbaUnorm,
    TextureFormat::Bc2RgbaUnormSrgb,
    TextureFormat::Bc3RgbaUnorm,
    TextureFormat::Bc3RgbaUnormSrgb,
    TextureFormat::Bc4RUnorm,
    TextureFormat::Bc4RSnorm,
    TextureFormat::Bc5RgUnorm,
    TextureFormat::Bc5RgSnorm,
    TextureFormat::Bc6hRgbUfloat,
    TextureFormat::Bc6hRgbFloat,
    TextureFormat::Bc7RgbaUnorm,
    TextureFormat::Bc7RgbaUnormSrgb,
    TextureFormat::Etc2Rgb8Unorm,
    TextureFormat::Etc2Rgb8UnormSrgb,
    TextureFormat::Etc2Rgb8A1Unorm,
    TextureFormat::Etc2Rgb8A1UnormSrgb,
    TextureFormat::Etc2Rgba8Unorm,
    TextureFormat::Etc2Rgba8UnormSrgb,
    TextureFormat::EacR11Unorm,
    TextureFormat::EacR11Snorm,
    TextureFormat::EacRg11Unorm,
    TextureFormat::EacRg11Snorm,
];

/// Compile-time exhaustiveness guard: adding a variant to `TextureFormat` breaks this match.
#[allow(clippy::match_same_arms)]
fn _format_list_is_exhaustive(f: TextureFormat) {
    use TextureFormat::*;
    match f {
        R8Unorm | R8Snorm | R8Uint | R8Sint | R16Uint | R16Sint | R16Unorm | R16Snorm | R16Float
        | Rg8Unorm | Rg8Snorm | Rg8Uint | Rg8Sint | R32Uint | R32Sint | R32Float | Rg16Uint
        | Rg16Sint | Rg16Unorm | Rg16Snorm | Rg16Float | Rgba8Unorm | Rgba8UnormSrgb
        | Rgba8Snorm | Rgba8Uint | Rgba8Sint | Bgra8Unorm | Bgra8UnormSrgb | Rgb9e5Ufloat
        | Rgb10a2Uint | Rgb10a2Unorm | Rg11b10Float | Rg32Uint | Rg32Sint | Rg32Float
        | Rgba16Uint | Rgba16Sint | Rgba16Unorm | Rgba16Snorm | Rgba16Float | Rgba32Uint
        | Rgba32Sint | Rgba32Float | Stencil8 | Depth16Unorm | Depth24Plus
        | Depth24PlusStencil8 | Depth32Float | Depth32FloatStencil8 | NV12 | Bc1RgbaUnorm
        | Bc1RgbaUnormSrgb | Bc2RgbaUnorm | Bc2RgbaUnormSrgb | Bc3RgbaUnorm | Bc3RgbaUnormSrgb
        | Bc4RUnorm | Bc4RSnorm | Bc5RgUnorm | Bc5RgSnorm | Bc6hRgbUfloat | Bc6hRgbFloat
        | Bc7RgbaUnorm | Bc7RgbaUnormSrgb | Etc2Rgb8Unorm | Etc2Rgb8UnormSrgb
        | Etc2Rgb8A1Unorm | Etc2Rgb8A1UnormSrgb | Etc2Rgba8Unorm | Etc2Rgba8UnormSrgb
        | EacR11Unorm | EacR11Snorm | EacRg11Unorm | EacRg11Snorm => {}
        Astc { .. } => {}
    }
}

/// All plain variants followed by every Astc block x channel combination.
pub fn all_formats() -> Vec<TextureFormat> {
    let mut v: Vec<TextureFormat> = PLAIN_FORMATS.to_vec();
    for block in ASTC_BLOCKS {
        for channel in ASTC_CHANNELS {
            v.push(TextureFormat::Astc { block, channel });
        }
    }
    v
}

/// `Some(pixel size)` when uncompressed (1x1 blocks) with a defined copy size.
fn plain_pixel_size(f: &TextureFormat) -> Option<usize> {
    if f.block_dimensions() == (1, 1) && f.block_copy_size(None).is_some() {
        Some(f.pixel_size())
    } else {
        None
    }
}

/// The formats `random_image` draws from.
pub fn uncompressed_formats() -> Vec<TextureFormat> {
    all_formats().into_iter().filter(|f| plain_pixel_size(f).is_some()).collect()
}

pub fn format_table() -> String {
    let mut out = String::new();
    for f in all_formats() {
        let name = format!("{:?}", f).replace(' ', "");
        let ser = bincode::serialize(&f).expect("TextureFormat serializes");
        let px = plain_pixel_size(&f);
        let _ = writeln!(
            out,
            "FMT {} {} {} {}",
            name,
            hx(&ser),
            if px.is_some() { 1 } else { 0 },
            px.unwrap_or(0)
        );
    }
    out
}

/// Upper bound of the pixel data of one generated image (bytes); extents are halved until the
/// data fits, so that a 3-D image with a large `max_extent` still prints in sensible size.
const IMAGE_DATA_CAP: usize = 1 << 18;

fn gen_extent(rng: &mut Rng, max_extent: u32) -> u32 {
    let v = match rng.below(7) {
        0 => 0,
        1 => 1,
        2 => 2,
        3 => 3,
        4 => max_extent,
        _ => rng.range(0, max_extent as u64) as u32,
    };
    v.min(max_extent)
}

pub fn random_image(rng: &mut Rng, max_extent: u32) -> Image {
    let formats = uncompressed_formats();
    if max_extent >= 128 && rng.chance(1, 5) {
        // a large image of noise: more than 64 KiB that do not compress at all
        let format = *rng.pick(&[TextureFormat::Rgba8Unorm, TextureFormat::Rgba8UnormSrgb, TextureFormat::Rgba16Float, TextureFormat::R32Float, TextureFormat::Rgba32Float]);
        let px = format.pixel_size();
        let mut w = max_extent;
        let h = max_extent;
        while (w as usize) * (h as usize) * px > IMAGE_DATA_CAP {
            w /= 2;
        }
        let data = rng.bytes((w as usize) * (h as usize) * px);
        return Image::new(
            Extent3d { width: w, height: h, depth_or_array_layers: 1 },
            TextureDimension::D2,
            data,
            format,
            RenderAssetUsages::MAIN_WORLD | RenderAssetUsages::RENDER_WORLD,
        );
    }
    if rng.chance(1, 8) {
        // images a conforming peer can hold and publish whose byte length is NOT extent x texel size: a mip
        // chain behind the base level, a block-compressed format, a format without a texel size. (Built
        // field by field: Image::new debug-asserts the plain case.) They must travel unchanged and decoding
        // them must not panic (C08); C13's own premise covers only the plain case.
        let (format, w, h, n) = match rng.below(4) {
            0 => {
                let w = 1 << rng.range(1, 3) as u32;
                (TextureFormat::Rgba8Unorm, w, w, (w * w * 4 + (w / 2) * (w / 2) * 4 + 4) as usize)
            }
            1 => {
                let k = rng.range(1, 3) as u32;
                (TextureFormat::Bc7RgbaUnorm, 4 * k, 4 * k, (16 * k * k) as usize)
            }
            2 => (TextureFormat::Bc1RgbaUnormSrgb, 8, 4, 16),
            _ => (*rng.pick(&[TextureFormat::Depth24Plus, TextureFormat::Depth24PlusStencil8]), 2, 2, rng.below(20) as usize),
        };
        let mut image = Image::default();
        image.data = payload(rng, n);
        image.texture_descriptor.dimension = TextureDimension::D2;
        image.texture_descriptor.size = Extent3d { width: w, height: h, depth_or_array_layers: 1 };
        image.texture_descriptor.format = format;
        return image;
    }
    if rng.chance(1, 12) {
        // one extent beyond 16 bit (a CPU-side image may be larger than any GPU limit): a thin line or strip
        let format = *rng.pick(&[TextureFormat::R8Unorm, TextureFormat::R8Uint, TextureFormat::Rg8Unorm]);
        let px = format.pixel_size();
        let long = 65_536 + rng.below(2000) as u32;
        let (dim, w, h, d) = match rng.below(4) {
            0 => (TextureDimension::D1, long, 1, 1),
            1 => (TextureDimension::D2, long, 1, 1),
            2 => (TextureDimension::D2, 1, long, 1),
            _ => (TextureDimension::D2, 1, 1, long),
        };
        let data = payload(rng, (w as usize) * (h as usize) * (d as usize) * px);
        return Image::new(
            Extent3d { width: w, height: h, depth_or_array_layers: d },
            dim,
            data,
            format,
            RenderAssetUsages::MAIN_WORLD | RenderAssetUsages::RENDER_WORLD,
        );
    }
    let format = *rng.pick(&formats);
    let px = format.pixel_size();
    let (dim, mut w, mut h, mut d) = match rng.below(3) {
        0 => (TextureDimension::D1, gen_extent(rng, max_extent), 1, 1),
        1 => (
            TextureDimension::D2,
            gen_extent(rng, max_extent),
            gen_extent(rng, max_extent),
            rng.range(1, 3) as u32,
        ),
        _ => (
            TextureDimension::D3,
            gen_extent(rng, max_extent),
            gen_extent(rng, max_extent),
            gen_extent(rng, max_extent),
        ),
    };
    while (w as usize) * (h as usize) * (d as usize) * px > IMAGE_DATA_CAP {
        if w >= h && w >= d {
            w /= 2;
        } else if h >= d {
            h /= 2;
        } else {
            d /= 2;
        }
    }
    let n = (w as usize) * (h as usize) * (d as usize) * px;
    let data = payload(rng, n);
    Image::new(
        Extent3d { width: w, height: h, depth_or_array_layers: d },
        dim,
        data,
        format,
        RenderAssetUsages::MAIN_WORLD | RenderAssetUsages::RENDER_WORLD,
    )
}

/// `w=.. h=.. d=.. dim=.. fmt=.. data=..`
pub fn image_fields(img: &Image) -> String {
    let t = &img.texture_descriptor;
    let dim = match t.dimension {
        TextureDimension::D1 => 1,
        TextureDimension::D2 => 2,
        TextureDimension::D3 => 3,
    };
    format!(
        "w={} h={} d={} dim={} fmt={} data={}",
        t.size.width,
        t.size.height,
        t.size.depth_or_array_layers,
        dim,
        hx(&bincode::serialize(&t.format).expect("TextureFormat serializes")),
        hx(&img.data)
    )
}

pub fn image_cases(seed: u64, count: usize, max_extent: u32) -> String {
    let mut rng = Rng::new(seed);
    let mut out = String::new();
    for i in 0..count {
        let img = random_image(&mut rng, max_extent);
        let _ = writeln!(out, "IMG {} {}", i, image_fields(&img));
        match image_to_bin(&img) {
            None => {
                let _ = writeln!(out, "IMGBIN {} NONE", i);
                let _ = writeln!(out, "IMGDEC {} NONE", i);
            }
            Some(bin) => {
                let _ = writeln!(out, "IMGBIN {} {}", i, hx(&bin));
                match std::panic::catch_unwind(|| bin_to_image(&bin)) {
                    Ok(None) => {
                        let _ = writeln!(out, "IMGDEC {} NONE", i);
                    }
                    Ok(Some(dec)) => {
                        let _ = writeln!(out, "IMGDEC {} {}", i, image_fields(&dec));
                    }
                    Err(_) => {
                        let _ = writeln!(out, "IMGDEC {} PANIC", i);
                    }
                }
                if rng.chance(1, 3) && !bin.is_empty() {
                    let cut = rng.below(bin.len() as u64) as usize;
                    let bad = bin[..cut].to_vec();
                    let _ = writeln!(out, "IMGBAD {} {}", i, if bad.is_empty() { "-".to_string() } else { hx(&bad) });
                    match std::panic::catch_unwind(|| bin_to_image(&bad)) {
                        Ok(None) => {
                            let _ = writeln!(out, "IMGBADDEC {} NONE", i);
                        }
                        Ok(Some(dec)) => {
                            let _ = writeln!(out, "IMGBADDEC {} {}", i, image_fields(&dec));
                        }
                        Err(_) => {
                            let _ = writeln!(out, "IMGBADDEC {} PANIC", i);
                        }
                    }
                }
            }
        }
    }
    out
}

// ---------------------------------------------------------------------------------------------
// messages
// ---------------------------------------------------------------------------------------------

fn gen_text(rng: &mut Rng, url: bool) -> String {
    if url && rng.chance(1, 3) {
        let kind = *rng.pick(&["mesh", "image", "audio"]);
        return format!(
            "http://{}.{}.{}.{}:{}/{}/{}",
            rng.below(256),
            rng.below(256),
            rng.below(256),
            rng.below(256),
            rng.below(65536),
            kind,
            gen_uuid(rng)
        );
    }
    gen_string(rng, 1000)
}

fn gen_u16(rng: &mut Rng) -> u16 {
    match rng.below(4) {
        0 => 0,
        1 => 65535,
        _ => rng.next_u64() as u16,
    }
}

fn gen_blob(rng: &mut Rng) -> Vec<u8> {
    let n = match rng.below(6) {
        0 => 0,
        1 => rng.range(1, 16) as usize,
        5 => 2000,
        _ => rng.range(0, 2000) as usize,
    };
    payload(rng, n)
}

fn gen_message(rng: &mut Rng, kind: u64) -> VMessage {
    match kind {
        0 => VMessage::EntitySpawn { id: gen_uuid(rng) },
        1 => VMessage::EntityParented { entity_id: gen_uuid(rng), parent_id: gen_uuid(rng) },
        2 => VMessage::EntityDelete { id: gen_uuid(rng) },
        3 => VMessage::ComponentUpdated {
            id: gen_uuid(rng),
            name: gen_text(rng, false),
            data: gen_blob(rng),
        },
        4 => VMessage::StandardMaterialUpdated { id: gen_uuid(rng), material: gen_blob(rng) },
        5 => VMessage::MeshUpdated { id: gen_uuid(rng), url: gen_text(rng, true) },
        6 => VMessage::ImageUpdated { id: gen_uuid(rng), url: gen_text(rng, true) },
        7 => VMessage::AudioUpdated { id: gen_uuid(rng), url: gen_text(rng, true) },
        8 => VMessage::PromoteToHost,
        9 => {
            let ip = if rng.chance(1, 2) {
                let b = match rng.below(4) {
                    0 => [0u8; 4],
                    1 => [255u8; 4],
                    2 => [127, 0, 0, 1],
                    _ => {
                        let r = rng.bytes(4);
                        [r[0], r[1], r[2], r[3]]
                    }
                };
                IpAddr::V4(Ipv4Addr::from(b))
            } else {
                let mut b = [0u8; 16];
                match rng.below(4) {
                    0 => {}
                    1 => b = [255u8; 16],
                    2 => b[15] = 1,
                    _ => b.copy_from_slice(&rng.bytes(16)),
                }
                IpAddr::V6(Ipv6Addr::from(b))
            };
            let max_transfer = match rng.below(4) {
                0 => 0usize,
                1 => u64::MAX as usize,
                2 => rng.below(1 << 24) as usize,
                _ => rng.next_u64() as usize,
            };
            VMessage::NewHost { ip, port: gen_u16(rng), web_port: gen_u16(rng), max_transfer }
        }
        10 => VMessage::RequestInitialSync,
        _ => VMessage::FinishedInitialSync,
    }
}

pub fn msg_canon(m: &VMessage) -> String {
    let u = |id: &Uuid| hx(id.as_bytes());
    match m {
        VMessage::EntitySpawn { id } => format!("spawn {}", u(id)),
        VMessage::EntityParented { entity_id, parent_id } => {
            format!("parented {} {}", u(entity_id), u(parent_id))
        }
        VMessage::EntityDelete { id } => format!("delete {}", u(id)),
        VMessage::ComponentUpdated { id, name, data } => {
            format!("comp {} {} {}", u(id), hx(name.as_bytes()), hx(data))
        }
        VMessage::StandardMaterialUpdated { id, material } => format!("mat {} {}", u(id), hx(material)),
        VMessage::MeshUpdated { id, url } => format!("mesh {} {}", u(id), hx(url.as_bytes())),
        VMessage::ImageUpdated { id, url } => format!("image {} {}", u(id), hx(url.as_bytes())),
        VMessage::AudioUpdated { id, url } => format!("audio {} {}", u(id), hx(url.as_bytes())),
        VMessage::PromoteToHost => "promote".to_string(),
        VMessage::NewHost { ip, port, web_port, max_transfer } => match ip {
            IpAddr::V4(a) => {
                format!("newhost 4 {} {} {} {}", hx(&a.octets()), port, web_port, max_transfer)
            }
            IpAddr::V6(a) => {
                format!("newhost 6 {} {} {} {}", hx(&a.octets()), port, web_port, max_transfer)
            }
        },
        VMessage::RequestInitialSync => "reqinit".to_string(),
        VMessage::FinishedInitialSync => "fininit".to_string(),
    }
}

pub fn msg_cases(seed: u64, count: usize) -> String {
    let mut rng = Rng::new(seed);
    let mut out = String::new();
    let offset = rng.below(12);
    for i in 0..count {
        let m = gen_message(&mut rng, (i as u64 + offset) % 12);
        let _ = writeln!(out, "MSG {} {}", i, msg_canon(&m));
        let bin = m.encode();
        let _ = writeln!(out, "MSGBIN {} {}", i, hx(&bin));
        match VMessage::decode(&bin) {
            None => {
                let _ = writeln!(out, "MSGDEC {} NONE", i);
            }
            Some(d) => {
                let _ = writeln!(out, "MSGDEC {} {}", i, msg_canon(&d));
            }
        }
    }
    out
}

// ---------------------------------------------------------------------------------------------
// reflect: component family
// ---------------------------------------------------------------------------------------------

#[derive(Component, Reflect, Default, Clone, PartialEq, Debug)]
#[reflect(Component)]
pub struct CompA {
    pub value: i32,
}

#[derive(Component, Reflect, Default, Clone, PartialEq, Debug)]
#[reflect(Component)]
pub struct CompB(pub u64, pub f32);

#[derive(Component, Reflect, Default, Clone, PartialEq, Debug)]
#[reflect(Component)]
pub enum CompE {
    #[default]
    Unit,
    New(u8),
    Tup(i16, bool),
    Struct {
        a: u32,
        b: String,
    },
}

#[derive(Component, Reflect, Default, Clone, PartialEq, Debug)]
#[reflect(Component)]
pub struct Inner {
    pub x: i8,
    pub y: Option<u16>,
}

#[derive(Component, Reflect, Default, Clone, PartialEq, Debug)]
#[reflect(Component)]
pub struct CompN {
    pub opt: Option<u32>,
    pub v: Vec<i64>,
    pub s: String,
    pub nested: Inner,
    pub arr: [u16; 3],
    pub t: (u8, f64),
    pub c: char,
    pub big: u128,
    pub e: CompE,
    pub ov: Option<Vec<u8>>,
    pub vs: Vec<String>,
    pub b: bool,
    pub f: f32,
    pub neg: i64,
}

/// A component with `#[reflect(Default)]` whose default holds NON-EMPTY collections: a decoder that
/// rebuilds values by patching a default (Reflect::apply never removes list elements) is exposed.
#[derive(Component, Reflect, Clone, PartialEq, Debug)]
#[reflect(Component, Default)]
pub struct CompD {
    pub route: Vec<i32>,
    pub labels: Vec<String>,
    pub note: Option<Vec<u8>>,
    pub speed: f32,
}

impl Default for CompD {
    fn default() -> Self {
        CompD { route: vec![7, 8, 9], labels: vec!["start".to_string(), "end".to_string()], note: Some(vec![1, 2, 3]), speed: 1.5 }
    }
}

fn gen_comp_d(rng: &mut Rng) -> CompD {
    let rl = *rng.pick(&[0u64, 0, 1, 2, 3, 5]);
    let ll = *rng.pick(&[0u64, 1, 2, 4]);
    CompD {
        route: (0..rl).map(|_| int_bits(rng, 32) as i32).collect(),
        labels: (0..ll).map(|_| gen_string(rng, 40)).collect(),
        note: match rng.below(3) {
            0 => None,
            1 => Some(vec![]),
            _ => {
                let n = rng.below(6) as usize;
                Some(payload(rng, n))
            }
        },
        speed: gen_f32(rng),
    }
}

fn reg_family<T>(r: &mut TypeRegistry)
where
    T: Reflect + FromReflect + bevy::reflect::GetTypeRegistration + bevy::reflect::TypePath,
{
    // as `sync_component` does
    r.register::<T>();
    r.register_type_data::<T, ReflectFromReflect>();
}

/// One registry for all family types (what `sync_component::<T>()` plus
/// `setup_cascade_registrations` leave in the App's registry, restricted to the family).
pub fn family_registry() -> TypeRegistry {
    let mut r = TypeRegistry::default();
    reg_family::<CompA>(&mut r);
    reg_family::<CompB>(&mut r);
    reg_family::<CompE>(&mut r);
    reg_family::<Inner>(&mut r);
    reg_family::<CompN>(&mut r);
    reg_family::<CompD>(&mut r);
    reg_family::<Transform>(&mut r);
    r.register::<Vec3>();
    r.register::<Quat>();
    r.register_type_data::<Vec3, ReflectFromReflect>();
    r.register_type_data::<Quat, ReflectFromReflect>();
    reg_family::<Name>(&mut r);
    reg_family::<Visibility>(&mut r);
    reg_family::<Handle<Mesh>>(&mut r);
    reg_family::<Handle<StandardMaterial>>(&mut r);
    reg_family::<PointLight>(&mut r);
    reg_family::<StandardMaterial>(&mut r);
    // setup_cascade_registrations::<Handle<StandardMaterial>> / material_serde test
    r.register::<Color>();
    r.register::<Image>();
    r.register::<Handle<Image>>();
    r.register::<Option<Handle<Image>>>();
    r.register::<AlphaMode>();
    r.register::<ParallaxMappingMethod>();
    r.register::<OpaqueRendererMethod>();
    r
}

// ---- wire schema (TY) by walking the registry ------------------------------------------------

/// Opaque (`ReflectKind::Value`) types WITHOUT `ReflectSerialize` that are known to sit inside
/// family types; the serializer errors when it reaches a value of such a type. Printed as `X`.
/// Anything else of that kind panics so that nothing is guessed.
const KNOWN_UNSERIALIZABLE: [&str; 1] = ["std::sync::Arc<bevy_asset::handle::StrongHandle>"];

/// Hand-written schema of types whose registration carries `ReflectSerialize` (the value is
/// written by its serde impl, not by reflection).
fn serde_schema(type_path: &str) -> String {
    let color4 = "T(I4,I4,I4,I4)";
    match type_path {
        "()" => "U".into(),
        "bool" => "B".into(),
        "char" => "C".into(),
        "u8" | "i8" => "I1".into(),
        "u16" | "i16" => "I2".into(),
        "u32" | "i32" | "f32" => "I4".into(),
        "u64" | "i64" | "f64" | "usize" | "isize" => "I8".into(),
        "u128" | "i128" => "I16".into(),
        // serialize_str
        "alloc::string::String" | "alloc::borrow::Cow<str>" | "bevy_core::name::Name" => "Y".into(),
        // uuid 1.x, not human readable: serialize_bytes(as_bytes()) = u64 length 16 + 16 bytes
        "uuid::Uuid" => "Y".into(),
        // glam serde: serialize_tuple_struct(name, n) of f32
        "glam::Vec2" => "A2(I4)".into(),
        "glam::Vec3" | "glam::Vec3A" => "A3(I4)".into(),
        "glam::Vec4" | "glam::Quat" => "A4(I4)".into(),
        // bevy_color (feature `serialize`): serde-derived structs of four f32
        "bevy_color::srgba::Srgba"
        | "bevy_color::linear_rgba::LinearRgba"
        | "bevy_color::hsla::Hsla"
        | "bevy_color::hsva::Hsva"
        | "bevy_color::hwba::Hwba"
        | "bevy_color::laba::Laba"
        | "bevy_color::lcha::Lcha"
        | "bevy_color::oklaba::Oklaba"
        | "bevy_color::oklcha::Oklcha"
        | "bevy_color::xyza::Xyza" => color4.into(),
        // serde-derived enum of ten newtype variants
        "bevy_color::color::Color" => format!("E({})", vec![color4; 10].join("|")),
        other => panic!("serde_schema: type `{other}` has ReflectSerialize but no hand-written schema"),
    }
}

fn is_option(info: &bevy::reflect::EnumInfo) -> bool {
    info.type_path_table().module_path() == Some("core::option")
        && info.type_path_table().ident() == Some("Option")
}

/// Wire schema of the type `type_id` as `TypedReflectSerializer` (bevy_reflect 0.14.2) writes it.
pub fn schema_of(type_id: TypeId, what: &str, reg: &TypeRegistry) -> String {
    let registration = reg
        .get(type_id)
        .unwrap_or_else(|| panic!("schema_of: `{what}` is not registered"));
    let info = registration.type_info();
    if registration.data::<ReflectSerialize>().is_some() {
        return serde_schema(info.type_path());
    }
    let skipped = registration.data::<SerializationData>();
    let is_skipped = |i: usize| skipped.map(|d| d.is_field_skipped(i)).unwrap_or(false);
    let tuple = |parts: Vec<String>| format!("T({})", parts.join(","));
    match info {
        TypeInfo::Struct(s) => tuple(
            (0..s.field_len())
                .filter(|i| !is_skipped(*i))
                .map(|i| {
                    let f = s.field_at(i).unwrap();
                    schema_of(f.type_id(), f.type_path(), reg)
                })
                .collect(),
        ),
        TypeInfo::TupleStruct(s) => {
            let parts: Vec<String> = (0..s.field_len())
                .filter(|i| !is_skipped(*i))
                .map(|i| {
                    let f = s.field_at(i).unwrap();
                    schema_of(f.type_id(), f.type_path(), reg)
                })
                .collect();
            if s.field_len() == 1 && parts.len() == 1 {
                parts.into_iter().next().unwrap()
            } else {
                tuple(parts)
            }
        }
        TypeInfo::Tuple(t) => tuple(
            (0..t.field_len())
                .map(|i| {
                    let f = t.field_at(i).unwrap();
                    schema_of(f.type_id(), f.type_path(), reg)
                })
                .collect(),
        ),
        TypeInfo::List(l) => {
            format!("S({})", schema_of(l.item_type_id(), l.item_type_path_table().path(), reg))
        }
        TypeInfo::Array(a) => format!(
            "A{}({})",
            a.capacity(),
            schema_of(a.item_type_id(), a.item_type_path_table().path(), reg)
        ),
        TypeInfo::Map(m) => format!(
            "S(T({},{}))",
            schema_of(m.key_type_id(), m.key_type_path_table().path(), reg),
            schema_of(m.value_type_id(), m.value_type_path_table().path(), reg)
        ),
        TypeInfo::Enum(e) => {
            if is_option(e) {
                let some = e
                    .iter()
                    .find_map(|v| match v {
                        VariantInfo::Tuple(t) if t.field_len() == 1 => Some(t.field_at(0).unwrap()),
                        _ => None,
                    })
                    .expect("Option has a Some variant");
                return format!("O({})", schema_of(some.type_id(), some.type_path(), reg));
            }
            let parts: Vec<String> = e
                .iter()
                .map(|v| match v {
                    VariantInfo::Unit(_) => "U".to_string(),
                    VariantInfo::Tuple(t) if t.field_len() == 1 => {
                        let f = t.field_at(0).unwrap();
                        schema_of(f.type_id(), f.type_path(), reg)
                    }
                    VariantInfo::Tuple(t) => tuple(
                        t.iter().map(|f| schema_of(f.type_id(), f.type_path(), reg)).collect(),
                    ),
                    // no SerializationData for variant fields: all reflected fields are written
                    VariantInfo::Struct(s) => tuple(
                        s.iter().map(|f| schema_of(f.type_id(), f.type_path(), reg)).collect(),
                    ),
                })
                .collect();
            format!("E({})", parts.join("|"))
        }
        TypeInfo::Value(v) => {
            if KNOWN_UNSERIALIZABLE.contains(&v.type_path()) {
                "X".to_string()
            } else {
                panic!(
                    "schema_of: opaque type `{}` (reached as `{what}`) has no ReflectSerialize",
                    v.type_path()
                )
            }
        }
    }
}

// ---- value (VAL) by walking the reflected value ----------------------------------------------

fn ystr(s: &str) -> String {
    format!("y{}", hx(s.as_bytes()))
}

fn color4(a: [f32; 4]) -> String {
    format!("t(i{},i{},i{},i{})", a[0].to_bits(), a[1].to_bits(), a[2].to_bits(), a[3].to_bits())
}

/// Value of a type with `ReflectSerialize`, per the same hand-written table as `serde_schema`.
fn serde_val(type_path: &str, v: &dyn Reflect) -> String {
    macro_rules! get {
        ($t:ty) => {
            v.downcast_ref::<$t>().unwrap_or_else(|| {
                panic!("serde_val: value of `{type_path}` is a `{}`", v.reflect_type_path())
            })
        };
    }
    match type_path {
        "()" => "u".into(),
        "bool" => format!("b{}", *get!(bool) as u8),
        "char" => format!("c{}", *get!(char) as u32),
        "u8" => format!("i{}", get!(u8)),
        "u16" => format!("i{}", get!(u16)),
        "u32" => format!("i{}", get!(u32)),
        "u64" => format!("i{}", get!(u64)),
        "u128" => format!("i{}", get!(u128)),
        "usize" => format!("i{}", *get!(usize) as u64),
        "i8" => format!("i{}", *get!(i8) as u8),
        "i16" => format!("i{}", *get!(i16) as u16),
        "i32" => format!("i{}", *get!(i32) as u32),
        "i64" => format!("i{}", *get!(i64) as u64),
        "i128" => format!("i{}", *get!(i128) as u128),
        "isize" => format!("i{}", *get!(isize) as i64 as u64),
        "f32" => format!("i{}", get!(f32).to_bits()),
        "f64" => format!("i{}", get!(f64).to_bits()),
        "alloc::string::String" => ystr(get!(String)),
        "alloc::borrow::Cow<str>" => ystr(get!(std::borrow::Cow<'static, str>)),
        "bevy_core::name::Name" => ystr(get!(Name).as_str()),
        "uuid::Uuid" => format!("y{}", hx(get!(Uuid).as_bytes())),
        "glam::Vec2" => {
            let a = get!(Vec2).to_array();
            format!("a(i{},i{})", a[0].to_bits(), a[1].to_bits())
        }
        "glam::Vec3" => {
            let a = get!(Vec3).to_array();
            format!("a(i{},i{},i{})", a[0].to_bits(), a[1].to_bits(), a[2].to_bits())
        }
        "glam::Vec3A" => {
            let a = get!(bevy::math::Vec3A).to_array();
            format!("a(i{},i{},i{})", a[0].to_bits(), a[1].to_bits(), a[2].to_bits())
        }
        "glam::Vec4" => {
            let a = get!(Vec4).to_array();
            format!("a(i{},i{},i{},i{})", a[0].to_bits(), a[1].to_bits(), a[2].to_bits(), a[3].to_bits())
        }
        "glam::Quat" => {
            let a = get!(Quat).to_array();
            format!("a(i{},i{},i{},i{})", a[0].to_bits(), a[1].to_bits(), a[2].to_bits(), a[3].to_bits())
        }
        "bevy_color::srgba::Srgba" => {
            let c = get!(Srgba);
            color4([c.red, c.green, c.blue, c.alpha])
        }
        "bevy_color::linear_rgba::LinearRgba" => {
            let c = get!(LinearRgba);
            color4([c.red, c.green, c.blue, c.alpha])
        }
        "bevy_color::hsla::Hsla" => {
            let c = get!(Hsla);
            color4([c.hue, c.saturation, c.lightness, c.alpha])
        }
        "bevy_color::hsva::Hsva" => {
            let c = get!(Hsva);
            color4([c.hue, c.saturation, c.value, c.alpha])
        }
        "bevy_color::hwba::Hwba" => {
            let c = get!(Hwba);
            color4([c.hue, c.whiteness, c.blackness, c.alpha])
        }
        "bevy_color::laba::Laba" => {
            let c = get!(Laba);
            color4([c.lightness, c.a, c.b, c.alpha])
        }
        "bevy_color::lcha::Lcha" => {
            let c = get!(Lcha);
            color4([c.lightness, c.chroma, c.hue, c.alpha])
        }
        "bevy_color::oklaba::Oklaba" => {
            let c = get!(Oklaba);
            color4([c.lightness, c.a, c.b, c.alpha])
        }
        "bevy_color::oklcha::Oklcha" => {
            let c = get!(Oklcha);
            color4([c.lightness, c.chroma, c.hue, c.alpha])
        }
        "bevy_color::xyza::Xyza" => {
            let c = get!(Xyza);
            color4([c.x, c.y, c.z, c.alpha])
        }
        "bevy_color::color::Color" => match *get!(Color) {
            Color::Srgba(c) => format!("e0({})", color4([c.red, c.green, c.blue, c.alpha])),
            Color::LinearRgba(c) => format!("e1({})", color4([c.red, c.green, c.blue, c.alpha])),
            Color::Hsla(c) => format!("e2({})", color4([c.hue, c.saturation, c.lightness, c.alpha])),
            Color::Hsva(c) => format!("e3({})", color4([c.hue, c.saturation, c.value, c.alpha])),
            Color::Hwba(c) => format!("e4({})", color4([c.hue, c.whiteness, c.blackness, c.alpha])),
            Color::Laba(c) => format!("e5({})", color4([c.lightness, c.a, c.b, c.alpha])),
            Color::Lcha(c) => format!("e6({})", color4([c.lightness, c.chroma, c.hue, c.alpha])),
            Color::Oklaba(c) => format!("e7({})", color4([c.lightness, c.a, c.b, c.alpha])),
            Color::Oklcha(c) => format!("e8({})", color4([c.lightness, c.chroma, c.hue, c.alpha])),
            Color::Xyza(c) => format!("e9({})", color4([c.x, c.y, c.z, c.alpha])),
        },
        other => panic!("serde_val: type `{other}` has ReflectSerialize but no hand-written printer"),
    }
}

/// VAL of a reflected value (concrete or dynamic-with-represented-type), mirroring
/// `TypedReflectSerializer::serialize`.
pub fn val_of(v: &dyn Reflect, reg: &TypeRegistry) -> String {
    let info = v.get_represented_type_info().unwrap_or_else(|| {
        panic!("val_of: `{}` does not represent any type", v.reflect_type_path())
    });
    if reg.get_type_data::<ReflectSerialize>(info.type_id()).is_some() {
        return serde_val(info.type_path(), v);
    }
    let skipped = reg.get(info.type_id()).and_then(|r| r.data::<SerializationData>());
    let is_skipped = |i: usize| skipped.map(|d| d.is_field_skipped(i)).unwrap_or(false);
    let join = |parts: Vec<String>| parts.join(",");
    match v.reflect_ref() {
        ReflectRef::Struct(s) => format!(
            "t({})",
            join(
                s.iter_fields()
                    .enumerate()
                    .filter(|(i, _)| !is_skipped(*i))
                    .map(|(_, f)| val_of(f, reg))
                    .collect()
            )
        ),
        ReflectRef::TupleStruct(s) => {
            let parts: Vec<String> = s
                .iter_fields()
                .enumerate()
                .filter(|(i, _)| !is_skipped(*i))
                .map(|(_, f)| val_of(f, reg))
                .collect();
            if s.field_len() == 1 && parts.len() == 1 {
                parts.into_iter().next().unwrap()
            } else {
                format!("t({})", join(parts))
            }
        }
        ReflectRef::Tuple(t) => format!("t({})", join(t.iter_fields().map(|f| val_of(f, reg)).collect())),
        ReflectRef::List(l) => format!("s({})", join(l.iter().map(|f| val_of(f, reg)).collect())),
        ReflectRef::Array(a) => format!("a({})", join(a.iter().map(|f| val_of(f, reg)).collect())),
        ReflectRef::Map(m) => format!(
            "s({})",
            join(m.iter().map(|(k, x)| format!("t({},{})", val_of(k, reg), val_of(x, reg))).collect())
        ),
        ReflectRef::Enum(e) => {
            let option = match info {
                TypeInfo::Enum(ei) => is_option(ei),
                other => panic!("val_of: enum value with non-enum info {other:?}"),
            };
            let fields: Vec<String> = e.iter_fields().map(|f| val_of(f.value(), reg)).collect();
            if option {
                return match e.variant_type() {
                    VariantType::Unit => "o~".to_string(),
                    VariantType::Tuple if fields.len() == 1 => format!("o({})", fields[0]),
                    _ => panic!("val_of: malformed Option value"),
                };
            }
            let body = match e.variant_type() {
                VariantType::Unit => "u".to_string(),
                VariantType::Tuple if fields.len() == 1 => fields[0].clone(),
                VariantType::Tuple | VariantType::Struct => format!("t({})", join(fields)),
            };
            format!("e{}({})", e.variant_index(), body)
        }
        ReflectRef::Value(_) => panic!(
            "val_of: opaque value of `{}` has no ReflectSerialize (the serializer errors here)",
            info.type_path()
        ),
    }
}

// ---- value generators ------------------------------------------------------------------------

fn gen_comp_e(rng: &mut Rng) -> CompE {
    match rng.below(4) {
        0 => CompE::Unit,
        1 => CompE::New(int_bits(rng, 8) as u8),
        2 => CompE::Tup(int_bits(rng, 16) as i16, rng.chance(1, 2)),
        _ => CompE::Struct { a: int_bits(rng, 32) as u32, b: gen_string(rng, 400) },
    }
}

fn gen_inner(rng: &mut Rng) -> Inner {
    Inner {
        x: int_bits(rng, 8) as i8,
        y: if rng.chance(1, 3) { None } else { Some(int_bits(rng, 16) as u16) },
    }
}

fn gen_comp_n(rng: &mut Rng) -> CompN {
    let vlen = *rng.pick(&[0u64, 0, 1, 2, 50]).max(&rng.below(51));
    let vslen = if rng.chance(1, 3) { 0 } else { rng.below(51) };
    CompN {
        opt: if rng.chance(1, 3) { None } else { Some(int_bits(rng, 32) as u32) },
        v: (0..vlen).map(|_| int_bits(rng, 64) as i64).collect(),
        s: if rng.chance(1, 12) { let n = rng.range(66_000, 72_000) as usize; ascii_string(rng, n) } else { gen_string(rng, 700) },
        nested: gen_inner(rng),
        arr: [int_bits(rng, 16) as u16, int_bits(rng, 16) as u16, int_bits(rng, 16) as u16],
        t: (int_bits(rng, 8) as u8, gen_f64(rng)),
        c: gen_char(rng),
        big: int_bits(rng, 128),
        e: gen_comp_e(rng),
        ov: match rng.below(4) {
            0 => None,
            1 => Some(vec![]),
            _ => {
                let n = rng.below(51) as usize;
                Some(payload(rng, n))
            }
        },
        vs: (0..vslen).map(|_| gen_string(rng, 300)).collect(),
        b: rng.chance(1, 2),
        f: gen_f32(rng),
        neg: int_bits(rng, 64) as i64,
    }
}

/// `Name { hash, name }`: in this build (bevy_core without `serialize`) `Name` has no
/// `ReflectSerialize`, so BOTH fields travel, and `hash` is `AHasher::default()` of the name, whose
/// keys ahash draws once per process (runtime-rng). To keep the output a function of the seed the
/// hash is overwritten (through reflection, the field is private) with a drawn u64 - which is also
/// what a receiver in another process sees: a hash unrelated to its own hasher keys.
fn gen_name(rng: &mut Rng) -> Name {
    let mut n = Name::new(gen_string(rng, 500));
    let h = int_bits(rng, 64) as u64;
    *(&mut n as &mut dyn Struct)
        .field_mut("hash")
        .expect("Name.hash is reflected")
        .downcast_mut::<u64>()
        .expect("Name.hash: u64") = h;
    n
}

fn gen_vec3(rng: &mut Rng) -> Vec3 {
    match rng.below(4) {
        0 => Vec3::ZERO,
        1 => Vec3::ONE,
        _ => Vec3::new(gen_f32(rng), gen_f32(rng), gen_f32(rng)),
    }
}

fn gen_transform(rng: &mut Rng) -> Transform {
    Transform {
        translation: gen_vec3(rng),
        rotation: match rng.below(3) {
            0 => Quat::IDENTITY,
            _ => Quat::from_xyzw(gen_f32(rng), gen_f32(rng), gen_f32(rng), gen_f32(rng)),
        },
        scale: gen_vec3(rng),
    }
}

fn gen_handle<A: Asset>(rng: &mut Rng) -> Handle<A> {
    if rng.chance(1, 2) {
        Handle::Weak(AssetId::Uuid { uuid: gen_uuid(rng) })
    } else {
        let bits = match rng.below(4) {
            0 => 0,
            1 => u64::MAX,
            2 => rng.below(1000),
            _ => rng.next_u64(),
        };
        Handle::Weak(AssetId::Index {
            index: AssetIndex::from_bits(bits),
            marker: std::marker::PhantomData,
        })
    }
}

fn gen_color(rng: &mut Rng) -> Color {
    let a = [gen_f32(rng), gen_f32(rng), gen_f32(rng), gen_f32(rng)];
    let nice = [
        (rng.below(256) as f32) / 255.0,
        (rng.below(256) as f32) / 255.0,
        (rng.below(256) as f32) / 255.0,
        1.0,
    ];
    let a = if rng.chance(1, 2) { nice } else { a };
    match rng.below(12) {
        0 | 10 | 11 => Color::srgba(a[0], a[1], a[2], a[3]),
        1 => Color::linear_rgba(a[0], a[1], a[2], a[3]),
        2 => Color::hsla(a[0], a[1], a[2], a[3]),
        3 => Color::hsva(a[0], a[1], a[2], a[3]),
        4 => Color::hwba(a[0], a[1], a[2], a[3]),
        5 => Color::laba(a[0], a[1], a[2], a[3]),
        6 => Color::lcha(a[0], a[1], a[2], a[3]),
        7 => Color::oklaba(a[0], a[1], a[2], a[3]),
        8 => Color::oklcha(a[0], a[1], a[2], a[3]),
        _ => Color::xyza(a[0], a[1], a[2], a[3]),
    }
}

fn gen_unit_f32(rng: &mut Rng) -> f32 {
    match rng.below(4) {
        0 => 0.0,
        1 => 1.0,
        2 => rng.below(1001) as f32 / 1000.0,
        _ => gen_f32(rng),
    }
}

fn gen_point_light(rng: &mut Rng) -> PointLight {
    PointLight {
        color: gen_color(rng),
        intensity: gen_f32(rng),
        range: gen_f32(rng),
        radius: gen_unit_f32(rng),
        shadows_enabled: rng.chance(1, 2),
        shadow_depth_bias: gen_unit_f32(rng),
        shadow_normal_bias: gen_unit_f32(rng),
    }
}

fn gen_tex(rng: &mut Rng) -> Option<Handle<Image>> {
    match rng.below(4) {
        0 | 1 => None,
        _ => Some(gen_handle::<Image>(rng)),
    }
}

fn gen_uv(rng: &mut Rng) -> UvChannel {
    if rng.chance(1, 2) {
        UvChannel::Uv0
    } else {
        UvChannel::Uv1
    }
}

fn gen_material(rng: &mut Rng) -> StandardMaterial {
    let mut m = StandardMaterial::default();
    if rng.chance(1, 12) {
        return m;
    }
    m.base_color = gen_color(rng);
    m.base_color_texture = gen_tex(rng);
    m.emissive = LinearRgba::new(gen_unit_f32(rng), gen_unit_f32(rng), gen_unit_f32(rng), gen_unit_f32(rng));
    m.emissive_texture = gen_tex(rng);
    m.perceptual_roughness = gen_unit_f32(rng);
    m.metallic = gen_unit_f32(rng);
    m.metallic_roughness_texture = gen_tex(rng);
    m.normal_map_texture = gen_tex(rng);
    m.occlusion_texture = gen_tex(rng);
    m.depth_map = gen_tex(rng);
    m.double_sided = rng.chance(1, 2);
    m.unlit = rng.chance(1, 2);
    m.fog_enabled = rng.chance(1, 2);
    m.flip_normal_map_y = rng.chance(1, 2);
    m.alpha_mode = match rng.below(8) {
        0 => AlphaMode::Opaque,
        1 | 2 => AlphaMode::Mask(gen_unit_f32(rng)),
        3 => AlphaMode::Blend,
        4 => AlphaMode::Premultiplied,
        5 => AlphaMode::AlphaToCoverage,
        6 => AlphaMode::Add,
        _ => AlphaMode::Multiply,
    };
    if rng.chance(1, 2) {
        // the remaining reflected fields
        m.base_color_channel = gen_uv(rng);
        m.emissive_channel = gen_uv(rng);
        m.metallic_roughness_channel = gen_uv(rng);
        m.normal_map_channel = gen_uv(rng);
        m.occlusion_channel = gen_uv(rng);
        m.emissive_exposure_weight = gen_unit_f32(rng);
        m.reflectance = gen_unit_f32(rng);
        m.diffuse_transmission = gen_unit_f32(rng);
        m.specular_transmission = gen_unit_f32(rng);
        m.thickness = gen_unit_f32(rng);
        m.ior = gen_f32(rng);
        m.attenuation_distance = gen_f32(rng);
        m.attenuation_color = gen_color(rng);
        m.clearcoat = gen_unit_f32(rng);
        m.clearcoat_perceptual_roughness = gen_unit_f32(rng);
        m.anisotropy_strength = gen_unit_f32(rng);
        m.anisotropy_rotation = gen_f32(rng);
        m.depth_bias = gen_f32(rng);
        m.parallax_depth_scale = gen_unit_f32(rng);
        m.parallax_mapping_method = if rng.chance(1, 2) {
            ParallaxMappingMethod::Occlusion
        } else {
            ParallaxMappingMethod::Relief { max_steps: int_bits(rng, 32) as u32 }
        };
        m.max_parallax_layer_count = gen_f32(rng);
        m.lightmap_exposure = gen_f32(rng);
        m.opaque_render_method = match rng.below(3) {
            0 => OpaqueRendererMethod::Forward,
            1 => OpaqueRendererMethod::Deferred,
            _ => OpaqueRendererMethod::Auto,
        };
        m.deferred_lighting_pass_id = int_bits(rng, 8) as u8;
        m.uv_transform = bevy::math::Affine2::from_cols_array(&[
            gen_f32(rng),
            gen_f32(rng),
            gen_f32(rng),
            gen_f32(rng),
            gen_f32(rng),
            gen_f32(rng),
        ]);
    }
    // `cull_mode` is #[reflect(ignore)]: it never travels and is left at its default here.
    m
}

// ---- case emission ---------------------------------------------------------------------------

fn emit_case<T>(out: &mut String, i: usize, v: &T, reg: &TypeRegistry, eq: fn(&T, &T) -> bool)
where
    T: Reflect + FromReflect + bevy::reflect::TypePath,
{
    let path = v
        .get_represented_type_info()
        .expect("family types have type info")
        .type_path();
    let ty = schema_of(TypeId::of::<T>(), path, reg);
    let _ = writeln!(out, "REFL {} path={} ty={} val={}", i, hx(path.as_bytes()), ty, val_of(v, reg));
    let bytes = reflect_to_bin(v.as_reflect(), reg)
        .unwrap_or_else(|e| panic!("reflect_to_bin failed on case {i} ({path}): {e}"));
    let _ = writeln!(out, "REFLBIN {} {}", i, hx(&bytes));
    let back = bin_to_reflect(&bytes, reg);
    let partial_eq = v.reflect_partial_eq(&*back) == Some(true);
    let from_reflect = match T::from_reflect(&*back) {
        Some(t) => eq(&t, v),
        None => false,
    };
    let reenc = match reflect_to_bin(&*back, reg) {
        Ok(b) => b == bytes,
        Err(_) => false,
    };
    let _ = writeln!(
        out,
        "REFLCHK {} partial_eq={} from_reflect={} reenc={} dec={}",
        i,
        partial_eq as u8,
        from_reflect as u8,
        reenc as u8,
        val_of(&*back, reg)
    );
}

fn eq_partial<T: PartialEq>(a: &T, b: &T) -> bool {
    a == b
}

fn eq_debug<T: std::fmt::Debug>(a: &T, b: &T) -> bool {
    format!("{:?}", a) == format!("{:?}", b)
}

pub const FAMILY_KINDS: u64 = 13;

pub fn reflect_cases(seed: u64, count: usize) -> String {
    let mut rng = Rng::new(seed);
    let reg = family_registry();
    let mut out = String::new();
    let offset = rng.below(FAMILY_KINDS);
    for i in 0..count {
        let r = &mut rng;
        match (i as u64 + offset) % FAMILY_KINDS {
            0 => emit_case(&mut out, i, &CompA { value: int_bits(r, 32) as i32 }, &reg, eq_partial),
            1 => emit_case(&mut out, i, &CompB(int_bits(r, 64) as u64, gen_f32(r)), &reg, eq_partial),
            2 => emit_case(&mut out, i, &gen_comp_e(r), &reg, eq_partial),
            3 => emit_case(&mut out, i, &gen_inner(r), &reg, eq_partial),
            4 => emit_case(&mut out, i, &gen_comp_n(r), &reg, eq_partial),
            5 => emit_case(&mut out, i, &gen_transform(r), &reg, eq_partial),
            6 => emit_case(&mut out, i, &gen_name(r), &reg, eq_partial),
            7 => {
                let v = match r.below(3) {
                    0 => Visibility::Inherited,
                    1 => Visibility::Hidden,
                    _ => Visibility::Visible,
                };
                emit_case(&mut out, i, &v, &reg, eq_partial)
            }
            8 => emit_case(&mut out, i, &gen_handle::<Mesh>(r), &reg, eq_partial),
            9 => emit_case(&mut out, i, &gen_handle::<StandardMaterial>(r), &reg, eq_partial),
            10 => emit_case(&mut out, i, &gen_point_light(r), &reg, eq_debug),
            11 => emit_case(&mut out, i, &gen_comp_d(r), &reg, eq_partial),
            _ => emit_case(&mut out, i, &gen_material(r), &reg, eq_debug),
        }
    }
    out
}
