//! C14: drives the real HTTP asset endpoint (tiny_http acceptor + responder threads, the
//! three caches) through interleavings of publications and raw-socket requests and writes
//! one line per operation; the Coq model (Http/Route.v, extracted) replays the same history.
use crate::util::{hex, Rng};
use bevy::prelude::*;
use bevy_sync::verif::{AssetClass, AssetEndpoint};
use std::io::{Read, Write};
use std::net::{IpAddr, Ipv4Addr, Ipv6Addr, SocketAddr, TcpListener, TcpStream};
use std::time::Duration;
use uuid::Uuid;

fn free_port(ip: IpAddr) -> u16 {
    TcpListener::bind(SocketAddr::new(ip, 0)).unwrap().local_addr().unwrap().port()
}

pub struct HttpAnswer {
    pub status: u16,
    pub content_length: Option<usize>,
    pub chunked: bool,
    pub body: Vec<u8>,
}

fn dechunk(mut b: &[u8]) -> Vec<u8> {
    let mut out = vec![];
    loop {
        let Some(pos) = b.windows(2).position(|w| w == b"\r\n") else { break };
        let line = std::str::from_utf8(&b[..pos]).unwrap_or("0");
        let n = usize::from_str_radix(line.split(';').next().unwrap().trim(), 16).unwrap_or(0);
        b = &b[pos + 2..];
        if n == 0 || b.len() < n {
            break;
        }
        out.extend_from_slice(&b[..n]);
        b = &b[n..];
        if b.len() >= 2 {
            b = &b[2..];
        }
    }
    out
}

pub fn raw_request(addr: SocketAddr, method: &str, target: &[u8], http10: bool) -> Option<HttpAnswer> {
    let mut s = TcpStream::connect_timeout(&addr, Duration::from_secs(5)).ok()?;
    s.set_read_timeout(Some(Duration::from_secs(10))).ok()?;
    let mut req = Vec::new();
    req.extend_from_slice(method.as_bytes());
    req.push(b' ');
    req.extend_from_slice(target);
    req.extend_from_slice(if http10 { b" HTTP/1.0\r\n" } else { b" HTTP/1.1\r\n" });
    req.extend_from_slice(b"Host: x\r\nConnection: close\r\n\r\n");
    s.write_all(&req).ok()?;
    let mut resp = Vec::new();
    let _ = s.read_to_end(&mut resp);
    let pos = resp.windows(4).position(|w| w == b"\r\n\r\n")?;
    let head = String::from_utf8_lossy(&resp[..pos]).to_string();
    let body = &resp[pos + 4..];
    let mut lines = head.split("\r\n");
    let status: u16 = lines.next()?.split(' ').nth(1)?.parse().ok()?;
    let mut content_length = None;
    let mut chunked = false;
    for l in lines {
        let mut it = l.splitn(2, ':');
        let k = it.next().unwrap_or("").trim().to_ascii_lowercase();
        let v = it.next().unwrap_or("").trim().to_string();
        if k == "content-length" {
            content_length = v.parse().ok();
        }
        if k == "transfer-encoding" && v.to_ascii_lowercase().contains("chunked") {
            chunked = true;
        }
    }
    let body = if chunked { dechunk(body) } else { body.to_vec() };
    Some(HttpAnswer { status, content_length, chunked, body })
}

fn class_name(c: AssetClass) -> &'static str {
    match c {
        AssetClass::Mesh => "mesh",
        AssetClass::Image => "image",
        AssetClass::Audio => "audio",
    }
}

fn print_answer(out: &mut String, a: &Option<HttpAnswer>) {
    match a {
        None => out.push_str(" -> noanswer\n"),
        Some(a) => {
            let cl = match (a.content_length, a.chunked) {
                (Some(n), false) => format!("len:{}", n),
                (None, true) => "chunked".to_string(),
                (Some(n), true) => format!("both:{}", n),
                (None, false) => "none".to_string(),
            };
            out.push_str(&format!(" -> {} {} {}\n", a.status, cl, hex(&a.body)));
        }
    }
}

/// One endpoint, `n` operations. Lines:
///   EP ipv6 threshold
///   PUB class uuidhex bodyhex url
///   GET method http10 targethex -> status len:N|chunked bodyhex
pub fn run(seed: u64, n: usize, ipv6: bool) -> String {
    let mut rng = Rng::new(seed);
    let mut out = String::new();
    let ip: IpAddr = if ipv6 { IpAddr::V6(Ipv6Addr::LOCALHOST) } else { IpAddr::V4(Ipv4Addr::LOCALHOST) };
    let port = free_port(ip);
    let threshold = *rng.pick(&[0usize, 1, 16, 64, 100, 1000, 100_000_000]);
    let mut ep = AssetEndpoint::new(ip, port, threshold);
    let addr = SocketAddr::new(ip, port);
    std::thread::sleep(Duration::from_millis(30));
    out.push_str(&format!("EP {} {} {} {}\n", ipv6 as u8, threshold, ip, port));
    let pool: Vec<Uuid> = (0..6).map(|_| Uuid::from_bytes(rng.bytes(16).try_into().unwrap())).collect();
    let classes = [AssetClass::Mesh, AssetClass::Image, AssetClass::Audio];
    let mut published: Vec<(AssetClass, Uuid)> = vec![];
    let mut gets: Vec<(String, bool, Vec<u8>)> = vec![];
    let mut last_url: Option<(AssetClass, Uuid, String)> = None;
    for _ in 0..n {
        if rng.chance(1, 4) {
            // publish (audio carries arbitrary bytes; mesh and image go through the real encoders)
            let c = *rng.pick(&classes);
            let id = *rng.pick(&pool);
            let size = match rng.below(6) {
                0 => 0,
                1 => 1,
                2 => threshold.saturating_sub(1).min(5000),
                3 => threshold.min(5000),
                4 => (threshold + 1).min(5000),
                _ => rng.range(0, 300) as usize,
            };
            let (body, url) = match c {
                AssetClass::Audio => {
                    let bytes = crate::util::payload(&mut rng, size);
                    let url = ep.serve_audio(&id, &AudioSource { bytes: bytes.clone().into() });
                    (bytes, url)
                }
                AssetClass::Mesh => {
                    let mesh = crate::codec::random_mesh(&mut rng, (size / 12).min(40));
                    let body = bevy_sync::verif::mesh_to_bin(&mesh);
                    let url = ep.serve_mesh(&id, &mesh);
                    (body, url)
                }
                AssetClass::Image => {
                    let img = crate::codec::random_image(&mut rng, 6);
                    let body = bevy_sync::verif::image_to_bin(&img).unwrap();
                    let url = ep.serve_image(&id, &img);
                    (body, url)
                }
            };
            out.push_str(&format!("PUB {} {} {} {}\n", class_name(c), hex(id.as_bytes()), hex(&body), url));
            // what the cache holds after this call, as the hook reports it
            let cached = ep.served_bytes(c, &id).unwrap_or_default();
            out.push_str(&format!("CACHED {} {} {}\n", class_name(c), hex(id.as_bytes()), hex(&cached)));
            published.push((c, id));
            last_url = Some((c, id, url.clone()));
        } else {
            let c = *rng.pick(&classes);
            let id = if !published.is_empty() && rng.chance(2, 3) { rng.pick(&published).1 } else { *rng.pick(&pool) };
            let c = if !published.is_empty() && rng.chance(1, 2) { rng.pick(&published).0 } else { c };
            let h = id.hyphenated().to_string();
            let target: Vec<u8> = match rng.below(16) {
                0..=6 => format!("/{}/{}", class_name(c), h).into_bytes(),
                7 => format!("/{}/{}", class_name(c), h.to_uppercase()).into_bytes(),
                8 => format!("/{}/{}", class_name(c), id.simple()).into_bytes(),
                9 => format!("/{}/{}", class_name(c), id.braced()).into_bytes(),
                10 => format!("/{}/{}", class_name(c), id.urn()).into_bytes(),
                11 => format!("/{}/{}?x=1", class_name(c), h).into_bytes(),
                12 => format!("/x/{}/{}", class_name(c), h).into_bytes(),
                13 => format!("/{}/{}", class_name(c), &h[..rng.range(0, 35) as usize]).into_bytes(),
                14 => format!("/{}/{}/{}", class_name(c), class_name(*rng.pick(&classes)), h).into_bytes(),
                _ => {
                    let junk = ["/", "/mesh", "/mesh/", "/favicon.ico", "/audio/zzz", "/image//", "*", "/meshes/1"];
                    rng.pick(&junk).as_bytes().to_vec()
                }
            };
            let method = *rng.pick(&["GET", "GET", "GET", "GET", "POST", "PUT", "DELETE"]);
            let http10 = rng.chance(1, 6);
            let a = raw_request(addr, method, &target, http10);
            out.push_str(&format!("GET {} {} {}", method, http10 as u8, hex(&target)));
            print_answer(&mut out, &a);
            gets.push((method.to_string(), http10, target));
        }
    }
    // concurrent phase: the caches no longer change, 8 connections at once
    let sample: Vec<(String, bool, Vec<u8>)> = (0..16.min(gets.len())).map(|_| rng.pick(&gets).clone()).collect();
    let handles: Vec<_> = sample
        .into_iter()
        .map(|(m, h10, t)| {
            std::thread::spawn(move || {
                let a = raw_request(addr, &m, &t, h10);
                (m, h10, t, a)
            })
        })
        .collect();
    for h in handles {
        let (m, h10, t, a) = h.join().unwrap();
        out.push_str(&format!("GET {} {} {}", m, h10 as u8, hex(&t)));
        print_answer(&mut out, &a);
    }
    // the endpoint still answers after everything above
    if let Some((c, id)) = published.first() {
        let t = format!("/{}/{}", class_name(*c), id.hyphenated()).into_bytes();
        let a = raw_request(addr, "GET", &t, false);
        out.push_str(&format!("GET GET 0 {}", hex(&t)));
        print_answer(&mut out, &a);
    }
    // the URL the endpoint ADVERTISES is what the other peers fetch: a second endpoint downloads the last
    // published asset through the crate's own request() (ureq) and must obtain exactly the served bytes
    if let Some((c, id, url)) = last_url {
        let dl = AssetEndpoint::new(ip, free_port(ip), 100_000_000);
        dl.request(c, id, url.clone());
        let want = ep.served_bytes(c, &id).unwrap_or_default();
        let t0 = std::time::Instant::now();
        let mut got = None;
        while t0.elapsed() < Duration::from_secs(3) {
            if let Some(b) = dl.downloaded_bytes(c, &id) {
                got = Some(b);
                break;
            }
            std::thread::sleep(Duration::from_millis(5));
        }
        let verdict = match &got {
            Some(b) if *b == want => "same",
            Some(_) => "different",
            None => "timeout",
        };
        out.push_str(&format!("FETCH {} {} {} {}\n", class_name(c), hex(id.as_bytes()), verdict, url));
    }
    out.push_str("END\n");
    out
}

/// "No request prevents the endpoint from answering later requests": `k` connections ask for a large
/// published asset and never read the answer; a later request for a small asset must still be answered
/// and a publication must not block. Prints `STALL readers=<k> small_get=<status|timeout> publish_ms=<n>`.
pub fn stall(k: usize, ipv6: bool) -> String {
    let ip: IpAddr = if ipv6 { IpAddr::V6(Ipv6Addr::LOCALHOST) } else { IpAddr::V4(Ipv4Addr::LOCALHOST) };
    let port = free_port(ip);
    let mut ep = AssetEndpoint::new(ip, port, 100_000_000);
    let addr = SocketAddr::new(ip, port);
    std::thread::sleep(Duration::from_millis(30));
    let big = Uuid::from_u128(0xB16);
    let small = Uuid::from_u128(0x5A11);
    ep.serve_audio(&big, &AudioSource { bytes: vec![7u8; 48 << 20].into() });
    ep.serve_audio(&small, &AudioSource { bytes: vec![1u8, 2, 3].into() });
    let mut stalled = vec![];
    for _ in 0..k {
        if let Ok(mut s) = TcpStream::connect_timeout(&addr, Duration::from_secs(5)) {
            let _ = s.write_all(format!("GET /audio/{} HTTP/1.1\r\nHost: x\r\n\r\n", big).as_bytes());
            stalled.push(s);      // kept open, never read
        }
    }
    std::thread::sleep(Duration::from_millis(400));
    // a later request, answered within three seconds?
    let (tx, rx) = std::sync::mpsc::channel();
    std::thread::spawn(move || {
        let a = raw_request(addr, "GET", format!("/audio/{}", small).as_bytes(), false);
        let _ = tx.send(a.map(|a| (a.status, a.body)));
    });
    let small_get = match rx.recv_timeout(Duration::from_secs(3)) {
        Ok(Some((st, body))) => format!("{}:{}", st, hex(&body)),
        Ok(None) => "noanswer".to_string(),
        Err(_) => "timeout".to_string(),
    };
    // a publication while the readers stall: must not wait for them
    let t0 = std::time::Instant::now();
    let (tx2, rx2) = std::sync::mpsc::channel();
    std::thread::spawn(move || {
        ep.serve_audio(&Uuid::from_u128(0x9E3), &AudioSource { bytes: vec![9u8; 10].into() });
        let _ = tx2.send(());
        std::thread::sleep(Duration::from_secs(30));
    });
    let publish_ms = match rx2.recv_timeout(Duration::from_secs(3)) {
        Ok(()) => t0.elapsed().as_millis().to_string(),
        Err(_) => "timeout".to_string(),
    };
    drop(stalled);
    format!("STALL readers={} small_get={} publish_ms={}\n", k, small_get, publish_ms)
}
